package bytebufferpool

import "sync"

// Control is installed by the simulator for a C13 run. All calls arrive on the
// goroutine that holds the scheduler's baton, so implementations need no locks.
type Control interface {
	// Event is called before every pool or buffer operation (a scheduling point).
	Event(op string, b *ByteBuffer)
	// Get returns the buffer to hand out (the control owns reuse policy).
	Get(p *Pool) *ByteBuffer
	// Put receives a released buffer.
	Put(p *Pool, b *ByteBuffer)
}

var (
	mu      sync.Mutex
	control Control
	nextID  int
)

// SetControl installs (or, with nil, removes) the simulator's control. Only
// the simulator calls it, between runs.
func SetControl(c Control) {
	mu.Lock()
	control = c
	mu.Unlock()
}

func yield(op string, b *ByteBuffer) {
	if c := control; c != nil {
		c.Event(op, b)
	}
}

// Pool represents byte buffer pool. The zero value is ready to use, as in the
// original.
type Pool struct {
	free []*ByteBuffer
}

var defaultPool Pool

// Get returns an empty byte buffer from the default pool.
func Get() *ByteBuffer { return defaultPool.Get() }

// Put returns byte buffer to the default pool.
func Put(b *ByteBuffer) { defaultPool.Put(b) }

// NewBuffer creates a buffer with a fresh identity (used by controls).
func NewBuffer(capacity int) *ByteBuffer {
	mu.Lock()
	nextID++
	id := nextID
	mu.Unlock()
	b := &ByteBuffer{id: id}
	if capacity > 0 {
		b.B = make([]byte, 0, capacity)
	}
	return b
}

// ID returns the simulator identity of a buffer (0 for a buffer the pool did not create).
func ID(b *ByteBuffer) int { return b.id }

// Get returns new byte buffer with zero length.
func (p *Pool) Get() *ByteBuffer {
	if c := control; c != nil {
		c.Event("Get", nil)
		return c.Get(p)
	}
	mu.Lock()
	if n := len(p.free); n > 0 {
		b := p.free[n-1]
		p.free = p.free[:n-1]
		b.inPool = false
		mu.Unlock()
		return b
	}
	mu.Unlock()
	return NewBuffer(0)
}

// Put releases byte buffer obtained via Get to the pool. The buffer mustn't be
// accessed after returning to the pool.
func (p *Pool) Put(b *ByteBuffer) {
	if c := control; c != nil {
		c.Event("Put", b)
		c.Put(p, b)
		return
	}
	b.B = b.B[:0] // the original resets on Put
	mu.Lock()
	if !b.inPool {
		b.inPool = true
		p.free = append(p.free, b)
	}
	mu.Unlock()
}

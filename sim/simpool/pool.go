package bytebufferpool

import (
	"fmt"
	"sync"
)

// Config is installed by the simulator for a C13 run. While a Config is
// installed all pool and buffer operations arrive on the goroutine that holds
// the scheduler's baton, so the state below needs no locking.
type Config struct {
	// Fresh: never reuse a buffer, Put only resets the length, no poisoning.
	// This is the reference behaviour: what an instance sees in a process in
	// which nothing else ever ran.
	Fresh bool
	// Get policy when not Fresh: lifo | fifo | random.
	Get  string
	Seed uint64
	// NewCaps: capacities of newly created buffers (cycled); their spare
	// capacity is pre-filled with garbage. Empty = capacity 0.
	NewCaps []int
	// Prefill: buffers every pool holds before its first Get ("what other
	// instances did earlier in the process").
	Prefill []PreBuf
	// Yield is called before every pool and buffer operation: a scheduling point.
	Yield func(op string)
	// Task returns the id of the running task (ownership statistics).
	Task func() int
}

// PreBuf describes a prefilled buffer.
type PreBuf struct {
	Cap  int
	Fill byte
}

// Stats counts what the pool actually did in a run.
type Stats struct {
	Gets, Puts      int
	NewBufs         int
	Reused          int // Gets served from the free list
	CrossTask       int // reused buffers last released by a different task
	PrefillConsumed int // reused buffers that came from the prefill
	PoisonChecked   int // poison checksums verified
	BufferOps       int // ByteBuffer method calls
	Pools           int
}

// State is the simulator-side state of an installed Config.
type State struct {
	cfg        *Config
	pools      []*Pool // first-seen order (never iterate a map)
	free       map[*Pool][]*ByteBuffer
	rng        uint64
	capIdx     int
	Stats      Stats
	Violations []string
	held       map[int]int
	putSeq     int
}

var (
	mu     sync.Mutex
	state  *State
	nextID int
)

// Install makes cfg the behaviour of every Pool in the process until
// Uninstall. Only the simulator calls it, between runs.
func Install(cfg *Config) *State {
	s := &State{cfg: cfg, free: map[*Pool][]*ByteBuffer{}, rng: cfg.Seed | 1, held: map[int]int{}}
	mu.Lock()
	state = s
	mu.Unlock()
	return s
}

// Uninstall returns to the plain free-list pool.
func Uninstall() {
	mu.Lock()
	state = nil
	mu.Unlock()
}

func yield(op string, b *ByteBuffer) {
	if s := state; s != nil {
		s.Stats.BufferOps++
		if s.cfg.Yield != nil {
			s.cfg.Yield(op)
		}
	}
}

func (s *State) task() int {
	if s.cfg.Task != nil {
		return s.cfg.Task()
	}
	return 0
}

// Held reports how many pool buffers a task currently holds.
func (s *State) Held(task int) int { return s.held[task] }

func (s *State) next() uint64 {
	s.rng += 0x9e3779b97f4a7c15
	z := s.rng
	z = (z ^ (z >> 30)) * 0xbf58476d1ce4e5b9
	z = (z ^ (z >> 27)) * 0x94d049bb133111eb
	return z ^ (z >> 31)
}

func poisonByte(seq, i int) byte { return byte(0xA5 ^ (seq * 31) ^ (i * 7)) }

func (s *State) poison(b *ByteBuffer) {
	s.putSeq++
	full := b.B[:cap(b.B)]
	h := uint64(14695981039346656037)
	for i := range full {
		full[i] = poisonByte(s.putSeq, i)
		h ^= uint64(full[i])
		h *= 1099511628211
	}
	b.poisoned = true
	b.sum = h
	b.poisonCap = cap(b.B)
}

func (s *State) verify(b *ByteBuffer, when string) {
	if !b.poisoned {
		return
	}
	s.Stats.PoisonChecked++
	bad := false
	if cap(b.B) != b.poisonCap || len(b.B) != 0 {
		bad = true
	} else {
		full := b.B[:cap(b.B)]
		h := uint64(14695981039346656037)
		for i := range full {
			h ^= uint64(full[i])
			h *= 1099511628211
		}
		bad = h != b.sum
	}
	if bad {
		s.Violations = append(s.Violations, fmt.Sprintf("write-after-release: buffer #%d (released by task %d) was modified while it was in the pool (detected %s)", b.id, b.releasedBy, when))
	}
	b.poisoned = false
}

func (s *State) initPool(p *Pool) {
	if _, ok := s.free[p]; ok {
		return
	}
	s.pools = append(s.pools, p)
	s.Stats.Pools++
	var l []*ByteBuffer
	for _, pb := range s.cfg.Prefill {
		b := NewBuffer(pb.Cap)
		full := b.B[:cap(b.B)]
		for i := range full {
			full[i] = pb.Fill
		}
		b.inPool = true
		b.prefill = true
		b.releasedBy = -1
		l = append(l, b)
	}
	s.free[p] = l
}

func (s *State) get(p *Pool) *ByteBuffer {
	s.Stats.Gets++
	t := s.task()
	s.held[t]++
	if s.cfg.Fresh {
		s.Stats.NewBufs++
		return NewBuffer(0)
	}
	s.initPool(p)
	l := s.free[p]
	if len(l) == 0 {
		s.Stats.NewBufs++
		c := 0
		if n := len(s.cfg.NewCaps); n > 0 {
			c = s.cfg.NewCaps[s.capIdx%n]
			s.capIdx++
		}
		b := NewBuffer(c)
		full := b.B[:cap(b.B)]
		for i := range full {
			full[i] = byte(s.next())
		}
		return b
	}
	i := len(l) - 1
	switch s.cfg.Get {
	case "fifo":
		i = 0
	case "random":
		i = int(s.next() % uint64(len(l)))
	}
	b := l[i]
	s.free[p] = append(append([]*ByteBuffer(nil), l[:i]...), l[i+1:]...)
	s.verify(b, "at the next Get")
	b.inPool = false
	s.Stats.Reused++
	if b.prefill {
		s.Stats.PrefillConsumed++
		b.prefill = false
	} else if b.releasedBy != t {
		s.Stats.CrossTask++
	}
	return b
}

func (s *State) put(p *Pool, b *ByteBuffer) {
	s.Stats.Puts++
	t := s.task()
	if s.held[t] > 0 {
		s.held[t]--
	}
	if s.cfg.Fresh {
		b.B = b.B[:0]
		return
	}
	s.initPool(p)
	if b.inPool {
		s.Violations = append(s.Violations, fmt.Sprintf("double-put: buffer #%d was released to the pool twice (it could be handed to two instances at once)", b.id))
		return
	}
	b.B = b.B[:0] // the original resets on Put
	b.inPool = true
	b.releasedBy = t
	s.poison(b)
	s.free[p] = append(s.free[p], b)
}

// Finish verifies the poison of every buffer still in a pool.
func (s *State) Finish() {
	for _, p := range s.pools {
		for _, b := range s.free[p] {
			s.verify(b, "at the end of the run")
		}
	}
}

// Pool represents byte buffer pool. The zero value is ready to use, as in the
// original.
type Pool struct {
	free []*ByteBuffer
}

var defaultPool Pool

// Get returns an empty byte buffer from the default pool.
func Get() *ByteBuffer { return defaultPool.Get() }

// Put returns byte buffer to the default pool.
func Put(b *ByteBuffer) { defaultPool.Put(b) }

// NewBuffer creates a buffer with a fresh identity.
func NewBuffer(capacity int) *ByteBuffer {
	mu.Lock()
	nextID++
	id := nextID
	mu.Unlock()
	b := &ByteBuffer{id: id}
	if capacity > 0 {
		b.B = make([]byte, 0, capacity)
	}
	return b
}

// Get returns new byte buffer with zero length.
func (p *Pool) Get() *ByteBuffer {
	if s := state; s != nil {
		if s.cfg.Yield != nil {
			s.cfg.Yield("Get")
		}
		return s.get(p)
	}
	mu.Lock()
	if n := len(p.free); n > 0 {
		b := p.free[n-1]
		p.free = p.free[:n-1]
		b.inPool = false
		mu.Unlock()
		return b
	}
	mu.Unlock()
	return NewBuffer(0)
}

// Put releases byte buffer obtained via Get to the pool. The buffer mustn't be
// accessed after returning to the pool.
func (p *Pool) Put(b *ByteBuffer) {
	if s := state; s != nil {
		if s.cfg.Yield != nil {
			s.cfg.Yield("Put")
		}
		s.put(p, b)
		return
	}
	b.B = b.B[:0] // the original resets on Put
	mu.Lock()
	if !b.inPool {
		b.inPool = true
		p.free = append(p.free, b)
	}
	mu.Unlock()
}

// Package bytebufferpool is the simulator-owned replacement of
// github.com/valyala/bytebufferpool v1.0.0 (wired in through a replace
// directive of the harness module; /repo is untouched).
//
// ByteBuffer keeps the API and semantics of the original (method bodies are
// the original's); Pool.Get/Put belong to the simulator: outside a simulation
// (no Config installed) the pool is a plain thread-safe LIFO free list with the
// original's observable behaviour (Put resets the length, buffers are reused).
// With a Config installed every Get, Put and ByteBuffer method first calls the
// Config's Yield, which is how the C13 scheduler gets its scheduling points,
// and the pool policies (reuse order, poisoning, prefill) are applied.
package bytebufferpool

import "io"

// ByteBuffer provides byte buffer, which can be used for minimizing memory allocations.
type ByteBuffer struct {
	// B is a byte buffer to use in append-like workloads.
	B []byte

	// simulator bookkeeping (not part of the original API; unexported)
	id         int
	inPool     bool
	prefill    bool
	poisoned   bool
	sum        uint64
	poisonCap  int
	releasedBy int
}

func (b *ByteBuffer) Len() int { yield("Len", b); return len(b.B) }

// ReadFrom implements io.ReaderFrom.
func (b *ByteBuffer) ReadFrom(r io.Reader) (int64, error) {
	yield("ReadFrom", b)
	p := b.B
	nStart := int64(len(p))
	nMax := int64(cap(p))
	n := nStart
	if nMax == 0 {
		nMax = 64
		p = make([]byte, nMax)
	} else {
		p = p[:nMax]
	}
	for {
		if n == nMax {
			nMax *= 2
			bNew := make([]byte, nMax)
			copy(bNew, p)
			p = bNew
		}
		nn, err := r.Read(p[n:])
		n += int64(nn)
		if err != nil {
			b.B = p[:n]
			n -= nStart
			if err == io.EOF {
				return n, nil
			}
			return n, err
		}
	}
}

// WriteTo implements io.WriterTo.
func (b *ByteBuffer) WriteTo(w io.Writer) (int64, error) {
	yield("WriteTo", b)
	n, err := w.Write(b.B)
	return int64(n), err
}

// Bytes returns b.B, i.e. all the bytes accumulated in the buffer.
func (b *ByteBuffer) Bytes() []byte { yield("Bytes", b); return b.B }

// Write implements io.Writer - it appends p to ByteBuffer.B
func (b *ByteBuffer) Write(p []byte) (int, error) {
	yield("Write", b)
	b.B = append(b.B, p...)
	return len(p), nil
}

// WriteByte appends the byte c to the buffer.
func (b *ByteBuffer) WriteByte(c byte) error {
	yield("WriteByte", b)
	b.B = append(b.B, c)
	return nil
}

// WriteString appends s to ByteBuffer.B.
func (b *ByteBuffer) WriteString(s string) (int, error) {
	yield("WriteString", b)
	b.B = append(b.B, s...)
	return len(s), nil
}

// Set sets ByteBuffer.B to p.
func (b *ByteBuffer) Set(p []byte) { yield("Set", b); b.B = append(b.B[:0], p...) }

// SetString sets ByteBuffer.B to s.
func (b *ByteBuffer) SetString(s string) { yield("SetString", b); b.B = append(b.B[:0], s...) }

// String returns string representation of ByteBuffer.B.
func (b *ByteBuffer) String() string { yield("String", b); return string(b.B) }

// Reset makes ByteBuffer.B empty.
func (b *ByteBuffer) Reset() { yield("Reset", b); b.B = b.B[:0] }

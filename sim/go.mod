module verifsim

go 1.20

require (
	github.com/parsyl/parquet v0.0.0
	github.com/valyala/bytebufferpool v1.0.0
)

replace github.com/parsyl/parquet => /repo

replace github.com/valyala/bytebufferpool => ./simpool

package props

import (
	"fmt"

	"verifsim/core"
)

// Shared by the reader-side properties C08, C10, C11: a valid file produced by
// a fault-free writer run, and the fault-free baseline read of it.

type fileWL struct {
	W       *core.WriterSpec
	Ref     *core.WriteResult
	Data    []byte
	Want    []interface{} // model: the records of the written batches
	Digest  uint64
	Regions []string // per sink call
	Foreign bool     // C11: holds an attachment written from another struct
}

func fileOpts(tier string, minBatches int, long bool) core.HistOpts {
	o := core.HistOpts{Shapes: allShapes, PageMin: 1, PageMax: 8, BigPagePct: 10, MinBatches: minBatches, MaxBatches: 3, MaxOps: 24, Profile: core.Benign}
	if long {
		o.Profile.MaxStr = 300
		o.PageMax = 50
	}
	o.ManyPct, o.ManyMax = 1, 40
	o.HugePct = 2
	if tier == "thorough" {
		o.MaxOps = 48
		o.MaxBatches = 4
		o.ManyMax = 120
	}
	return o
}

// genFile draws a history and runs it fault-free. ok is false when the writer
// itself fails (unusable workload).
func genFile(r *core.Rng, o core.HistOpts) (*fileWL, bool) {
	w := core.GenHistory(r, o)
	// one file in four of a shape that has a permuted twin is read back by the
	// code generated for the twin (same columns, fields declared in another order)
	if p, has := permutedReader[w.Shape]; has && r.Chance(1, 4) {
		w.ReadAs = p
	}
	ref, ok := refWrite(w)
	if !ok {
		return &fileWL{W: w, Ref: ref}, false
	}
	f := &fileWL{W: w, Ref: ref, Data: ref.Sink.Data, Want: wantAs(w, core.Flatten(ref.Batches)), Regions: sinkRegions(ref)}
	f.Digest = core.HashBytes(append([]byte(w.HistoryString()), f.Data...))
	return f, true
}

// permutedReader: shapes that exist a second time with their fields declared
// in another order; the second struct only ever reads files of the first.
var permutedReader = map[string]string{"flat": "flatp", "kv": "kvp", "nested": "nestedp"}

// wantAs expresses the model's records in the struct type that reads the file.
func wantAs(w *core.WriterSpec, recs []interface{}) []interface{} {
	if w.ReadAs == "" {
		return recs
	}
	return core.ConvertRecs(recs, core.GetShape(w.ReadAs).Type)
}

// baselineRead reads data through an ideal source of the given kind.
func baselineRead(shape string, data []byte, kind string, limit int) (*core.ReadResult, *core.Source) {
	src := core.NewSource(data, nil, nil)
	src.Record = true
	src.MaxCalls = 400000 + 400*len(data)
	rr := core.ExecReader(shape, src.AsReadSeeker(kind), limit, func(a string) { src.CurAPI = a })
	return rr, src
}

// usableBaseline: the fault-free read neither errors nor disagrees with the model.
func usableBaseline(rr *core.ReadResult, want []interface{}) bool {
	if rr.Reported() || rr.Panic != "" || rr.Hang || rr.Runaway {
		return false
	}
	if rr.Rows != int64(len(want)) {
		return false
	}
	ok, _ := core.EqualRecs(rr.Recs, want)
	return ok
}

// fileOfCase re-creates the file of an explicit case.
func fileOfCase(c *core.Case) (*fileWL, error) {
	if c.W == nil {
		return nil, fmt.Errorf("case needs a writer history that produces the file")
	}
	ref, ok := refWrite(c.W)
	if !ok {
		return nil, fmt.Errorf("the writer history of the case does not produce a file on an ideal sink")
	}
	f := &fileWL{W: c.W, Ref: ref, Data: ref.Sink.Data, Want: wantAs(c.W, core.Flatten(ref.Batches)), Regions: sinkRegions(ref)}
	f.Digest = core.HashBytes(append([]byte(c.W.HistoryString()), f.Data...))
	return f, nil
}

// regionAt labels a byte offset of the file by the sink call that wrote it.
func (f *fileWL) regionAt(off int) (string, bool) {
	for i, c := range f.Ref.Sink.Calls {
		if off < c.Off+c.Len {
			return f.Regions[i], off == c.Off
		}
	}
	return "end", true
}

func kindOr(k string) string {
	if k == "" {
		return "rs"
	}
	return k
}

// TimeSimFile draws one file for the simulated-clock arm of C08 (timesim):
// the ordinary C08 files without the heavy classes.
func TimeSimFile(r *core.Rng) (*core.WriterSpec, []byte, []interface{}, bool) {
	o := fileOpts("quick", 1, r.Chance(1, 2))
	o.LargePct, o.ManyPct, o.HugePct, o.GiantPct, o.BoundaryPct = 0, 0, 0, 0, 0
	f, ok := genFile(r, o)
	if !ok {
		return nil, nil, nil, false
	}
	return f.W, f.Data, f.Want, true
}

package props

import (
	"bytes"
	"fmt"
	"io"
	"os"
	"reflect"
	"strings"

	"verifsim/core"
	"verifsim/pq"
)

// C11 - a truncated file is never accepted.
//
// Crash-point enumeration on the simulated disk: the writer only appends
// through io.Writer, so the durable state after a crash in sink call k after j
// bytes is exactly the prefix of length off(k)+j. Every prefix is handed to a
// fresh reader ("restart").
type c11 struct{}

func init() { Register(c11{}) }

func (c11) ID() string    { return "C11" }
func (c11) Level() string { return "fault_enumeration" }
func (c11) Rule() string {
	return "workload = seeded fault-free writer run (any Add/Write/Close history incl. empty Writes and records pending at Close, 0..4 row groups, benign or random-byte strings, page size 1..8, three codecs, three shapes) producing a file of L bytes on the sim disk. Cases: the writer crashes at EVERY byte: every strict prefix 0..L-1 is opened and iterated with the documented client loop (files above 64 KiB: every cut in the last 4 KiB and within 8 bytes of each sink-call boundary plus a seeded sample; files of the 70-column shape: every cut in the last 256 bytes, every cut that ends in the magic, and a seeded 1-in-8 sample of the rest). Source kind cycles through ReadSeeker; +ByteReader; +ByteReader+ReaderAt+WriterTo; file-like. One cut in eight is read through a source that also fragments its reads (random / 1..3 bytes / fixed 1..7, with or without data+EOF); one cut in sixteen (big classes: at most twelve cuts inside the trailer) through a source OBJECT that served the complete file before the crash and is re-opened on the prefix (a handle held open; same identity, same name). One workload in five is an embedded-trailer file (three constructions: an older export of the same table that the prefix cannot satisfy; a near miss whose last page is cut short; an attachment written from another struct), read in a sandbox child. One file in four of shapes flat, kv, nested is read by the code generated for a struct with the same columns in another field order. Non-trivial = cut > 4 (more than the leading magic is durable); distinct = distinct (file digest, cut)."
}
func (c11) Assumptions() []string {
	return []string{
		"the destination is append-only (io.Writer), so crash states are prefixes; no reordering of writes below the io.Writer is modelled",
		"generated values never embed a complete footer + length + magic (such a file has prefixes that are themselves valid Parquet files)",
		"precondition per workload: the complete file is accepted by the reader (else the workload is unusable and counted)",
	}
}
func (c11) Probes() []string {
	return []string{"cut/page-header", "cut/page-body", "cut/footer", "cut/footer-len", "cut/tail-magic", "cut/clean-boundary", "cut/magic", "outcome/ctor-error", "rawbytes", "directed/trailer-coincidence-file", "directed/embedded-trailer-file", "directed/embedded-foreign-attachment", "source/held-open-across-the-crash", "source/fragmenting", "reader/permuted-struct", "class/giant-page", "codec/gzip", "codec/snappy", "codec/uncompressed"}
}
func (c11) Runs(tier string) int {
	if tier == "thorough" {
		return 40000
	}
	return 3000
}

func (p c11) Run(runseed uint64, tier string, acc *Acc) []*core.Violation {
	r := core.NewRng(runseed)
	o := core.HistOpts{Shapes: allShapes, PageMin: 1, PageMax: 8, MinBatches: 0, MaxBatches: 4, MaxOps: 30, Profile: core.Benign, LargePct: 1, ManyPct: 1, ManyMax: 60, HugePct: 1, BoundaryPct: 3, GiantPct: 2,
		// any history a caller may issue produces "a valid file": include Writes with nothing pending and records
		// pending at Close (what a writer does with them at Close decides which prefixes look complete)
		EmptyWrites: true, PendingClose: true}
	if tier == "thorough" {
		o.MaxOps = 60
	}
	raw := r.Chance(1, 2)
	if raw {
		o.Profile.RawBytes = true
		o.Profile.MaxStr = 24
		acc.Inc("rawbytes")
	}
	f, ok := genFile(r, o)
	if r.Chance(1, 5) {
		// embedded-trailer arm: since the reader checks the trailing magic, the only prefixes that get past
		// the footer check are those that end in a readable trailer of their own
		mk := embeddedTrailerFile
		switch r.Intn(6) {
		case 0, 1:
			mk = embeddedNearMissFile
		case 2:
			mk = embeddedForeignFile
		}
		if ef := mk(r); ef != nil {
			f, ok = ef, true
			acc.Inc("directed/embedded-trailer-file")
			if ef.Foreign {
				acc.Inc("directed/embedded-foreign-attachment")
			}
		}
	} else if r.Chance(1, 16) {
		// directed arm: hunt for a file in which a crash point in the trailer matters
		if hf := huntTrailerCoincidence(r); hf != nil {
			f, ok = hf, true
			acc.Inc("directed/trailer-coincidence-file")
		} else {
			acc.Inc("directed/trailer-coincidence-hunt-failed")
		}
	}
	acc.Runs++
	if !ok {
		acc.Unusable++
		return nil
	}
	limit := 2*len(f.Want) + 16
	full := c11FullRead(f, limit)
	if full.Reported() || full.Panic != "" || full.Hang || full.Runaway {
		acc.Unusable++
		return nil
	}
	acc.MixFP(f.Digest)
	acc.Inc("codec/" + f.W.Codec)
	acc.Inc("shape/" + f.W.Shape)
	if f.W.ReadAs != "" {
		acc.Inc("reader/permuted-struct")
	}
	if f.W.Large {
		acc.Inc("class/large")
	}
	if f.W.Many {
		acc.Inc("class/many-row-groups")
	}
	if f.W.Giant {
		acc.Inc("class/giant-page")
	}
	if f.W.Huge {
		acc.Inc("class/huge-values")
	}
	L := len(f.Data)
	if L > 64<<10 {
		acc.Inc("class/over-64KiB-sampled")
	}
	var vios []*core.Violation
	nontrivial := 0
	boundary := map[int]bool{}
	if L > 64<<10 {
		for _, c := range f.Ref.Sink.Calls {
			for d := -8; d <= 8; d++ {
				boundary[c.Off+d] = true
			}
		}
	}
	var riskyCuts []int
	var riskyKinds []string
	heldBig := 0
	wide := f.W.Shape == "wide" // 70 columns: opening a reader costs ~30 us before the first byte is read
	for cut := 0; cut < L; cut++ {
		if L > 64<<10 && cut < L-4096 && !boundary[cut] && !r.Chance(1, 16) {
			continue
		}
		if wide && cut < L-256 && !riskyCut(f.Data, cut) && !r.Chance(1, 8) {
			continue
		}
		kind := []string{"rs", "rsb", "rsx", "rsf"}[(cut+int(runseed%4))%4]
		cc := cut
		c := &core.Case{Prop: "C11", Seed: runseed, W: f.W, SourceKind: kind, Cut: &cc}
		if riskyCut(f.Data, cut) {
			riskyCuts = append(riskyCuts, cut)
			riskyKinds = append(riskyKinds, kind)
			continue
		}
		if (cut+int(runseed>>3))%16 == 0 && !f.W.Giant && !wide {
			// one cut in sixteen: the program had the same source object open on the complete file.
			// (The complete file is read once per such cut; for the big classes that costs up to
			// seconds, so only a dozen cuts inside the trailer get it.)
			if big := f.W.Large || f.W.Huge || f.W.Many; !big {
				c.HeldHandle = true
			} else if cut >= L-400 && heldBig < 12 {
				c.HeldHandle = true
				heldBig++
			}
		}
		if (cut+int(runseed>>6))%8 == 0 {
			// one cut in eight: the source of the truncated file also fragments its reads
			// (the cut is what the property is about; how the bytes arrive must not matter)
			c.Frag = &core.Frag{Policy: []string{"random", "small", "fixed"}[cut%3], Arg: 1 + cut%7, Seed: runseed ^ uint64(cut)*0x9e3779b97f4a7c15, EOFWithData: cut%2 == 0}
		}
		v, rr, steps := p.check(c, f, limit)
		acc.Evals++
		acc.Steps += steps
		if cut > 4 {
			nontrivial++
		}
		if c.HeldHandle {
			acc.Inc("source/held-open-across-the-crash")
		}
		if c.Frag != nil {
			acc.Inc("source/fragmenting")
		}
		region, clean := f.regionAt(cut)
		acc.Inc("cut/" + region)
		if clean {
			acc.Inc("cut/clean-boundary")
		}
		switch {
		case rr.CtorFail:
			acc.Inc("outcome/ctor-error")
		case rr.Failed:
			acc.Inc("outcome/error-from-Error()")
		}
		if cut == L/2 {
			acc.Sample(c, 2)
		}
		if v != nil {
			vios = append(vios, v)
			if len(vios) >= 3 {
				break
			}
		}
	}
	// prefixes that end in the magic get past the footer check: read them in the sandbox
	if len(riskyCuts) > 0 && len(vios) < 3 {
		res, err := riskyRead(f.W.ReadShape(), f.Data, riskyCuts, riskyKinds, limit, fmt.Sprintf("sim-%016x.parquet", f.Digest))
		if err != nil {
			acc.Inc("sandbox/child-error")
			acc.Unusable++
		} else {
			for i, cut := range riskyCuts {
				r := res[cut]
				acc.Evals++
				acc.Steps += r.Steps
				nontrivial++
				acc.Inc("cut/ends-in-magic(sandboxed)")
				acc.Inc("sandboxed-outcome/" + riskyKey(r))
				if os.Getenv("C11_RISKY_SURVEY") != "" {
					continue // maintenance: only count outcomes
				}
				cc := cut
				c := &core.Case{Prop: "C11", Seed: runseed, W: f.W, SourceKind: riskyKinds[i], Cut: &cc}
				if v := p.riskyVerdict(c, f, r); v != nil {
					vios = append(vios, v)
					if len(vios) >= 3 {
						break
					}
				}
			}
		}
	}
	acc.Mark(f.Digest, nontrivial)
	return vios
}

// riskyKey classifies a sandboxed outcome (panics by their innermost library frame).
func riskyKey(r RiskyRes) string {
	switch {
	case r.Crash != "":
		return "crash"
	case r.Panic != "":
		p := r.Panic
		if i := strings.Index(p, " @ "); i >= 0 {
			p = p[i+3:]
		}
		if i := strings.Index(p, " < "); i >= 0 {
			p = p[:i]
		}
		return "panic-in-" + r.PanicAPI + "@" + p
	case r.Hang:
		return "hang"
	case r.Reported:
		return "error-reported"
	}
	return "accepted"
}

// riskyVerdict turns a sandboxed read of a prefix that ends in the magic into a verdict.
func (p c11) riskyVerdict(c *core.Case, f *fileWL, r RiskyRes) *core.Violation {
	mk := func(sig, detail string) *core.Violation {
		return &core.Violation{Prop: "C11", Sig: "C11/" + sig + "/ends-in-magic",
			Detail: fmt.Sprintf("%s [file %s of %d bytes cut at byte %d, right after bytes that are a Parquet trailer of their own; source=%s]", detail, f.W.HistoryString(), len(f.Data), *c.Cut, kindOr(c.SourceKind)), Case: c}
	}
	switch {
	case r.Crash != "":
		return mk("crash", "the reader killed the process: "+r.Crash)
	case r.Panic != "":
		return mk("panic", "reader panicked in "+r.PanicAPI+": "+r.Panic)
	case r.Hang:
		return mk("hang", "reader did not finish within the step cap")
	case r.Reported:
		return nil
	case r.Runaway:
		return mk("accepted", "no error reported and rows keep coming")
	}
	return mk("accepted", fmt.Sprintf("the truncated file was accepted: constructor nil, %d rows delivered, Error() nil", r.Rows))
}

func (p c11) check(c *core.Case, f *fileWL, limit int) (*core.Violation, *core.ReadResult, int) {
	cut := *c.Cut
	var src *core.Source
	var rs io.ReadSeeker
	if c.HeldHandle {
		// the same source object served the complete file before the crash
		src = core.NewSource(f.Data, nil, nil)
		src.MaxCalls = 400000 + 400*len(f.Data)
		src.FileName = fmt.Sprintf("sim-%016x.parquet", f.Digest)
		rs = src.AsReadSeeker(kindOr(c.SourceKind))
		core.ExecReader(f.W.ReadShape(), rs, limit, nil)
		src.Reopen(f.Data[:cut:cut])
		src.SetFrag(c.Frag)
	} else {
		src = core.NewSource(f.Data[:cut:cut], c.Frag, nil)
		src.MaxCalls = 400000 + 400*len(f.Data)
		src.FileName = fmt.Sprintf("sim-%016x.parquet", f.Digest) // the crash leaves a shorter file under the same name
		rs = src.AsReadSeeker(kindOr(c.SourceKind))
	}
	rr := core.ExecReader(f.W.ReadShape(), rs, limit, nil)
	region, _ := f.regionAt(cut)
	held := ""
	if c.HeldHandle {
		held = ", the same source object was open on the complete file before the crash"
	}
	mk := func(sig, detail string) (*core.Violation, *core.ReadResult, int) {
		return &core.Violation{Prop: "C11", Sig: "C11/" + sig + "/" + region,
			Detail: fmt.Sprintf("%s [file %s of %d bytes cut at byte %d (inside %s); source=%s%s]", detail, f.W.HistoryString(), len(f.Data), cut, region, kindOr(c.SourceKind), held), Case: c}, rr, src.Stats.Calls
	}
	switch {
	case rr.Panic != "":
		return mk("panic", "reader panicked in "+rr.PanicAPI+": "+rr.Panic)
	case rr.Hang:
		return mk("hang", "reader did not finish within the step cap")
	case rr.Reported():
		return nil, rr, src.Stats.Calls
	case rr.Runaway:
		return mk("accepted", "no error reported and rows keep coming")
	}
	return mk("accepted", fmt.Sprintf("the truncated file was accepted: constructor nil, %d rows delivered, Error() nil", len(rr.Recs)))
}

func (p c11) Check(c *core.Case) (*core.Violation, error) {
	if c.Cut == nil {
		return nil, fmt.Errorf("C11 case needs cut")
	}
	f, err := fileOfCase(c)
	if err != nil {
		return nil, err
	}
	if *c.Cut < 0 || *c.Cut >= len(f.Data) {
		return nil, fmt.Errorf("cut %d is not a strict prefix of the %d-byte file", *c.Cut, len(f.Data))
	}
	limit := 2*len(f.Want) + 16
	full := c11FullRead(f, limit)
	if full.Reported() || full.Panic != "" || full.Hang || full.Runaway {
		return nil, fmt.Errorf("the complete file is not accepted by the reader")
	}
	if riskyCut(f.Data, *c.Cut) {
		res, err := riskyRead(f.W.ReadShape(), f.Data, []int{*c.Cut}, []string{kindOr(c.SourceKind)}, limit, fmt.Sprintf("sim-%016x.parquet", f.Digest))
		if err != nil {
			return nil, err
		}
		return p.riskyVerdict(c, f, res[*c.Cut]), nil
	}
	v, _, _ := p.check(c, f, limit)
	return v, nil
}

func (p c11) Shrink(c *core.Case) []*core.Case {
	var out []*core.Case
	if c.HeldHandle {
		n := *c
		n.HeldHandle = false
		out = append(out, &n)
	}
	if c.Frag != nil {
		n := *c
		n.Frag = nil
		out = append(out, &n)
	}
	if c.SourceKind != "" && c.SourceKind != "rs" {
		n := *c
		n.SourceKind = "rs"
		out = append(out, &n)
	}
	// a smaller file: keep the cut at the same distance from the end, the same
	// offset, or proportionally
	full, err := fileOfCase(c)
	if err != nil {
		return out
	}
	if riskyCut(full.Data, *c.Cut) {
		// embedded-trailer cases are constructions with side conditions (what makes the prefix unreadable);
		// shrinking the history would leave the construction, so only the source kind is simplified
		return out
	}
	fromEnd := len(full.Data) - *c.Cut
	for _, cand := range writerCandidates(c) {
		ref, ok := refWrite(cand.W)
		if !ok {
			continue
		}
		l := len(ref.Sink.Data)
		for _, cut := range []int{l - fromEnd, *c.Cut, *c.Cut * l / (len(full.Data) + 1)} {
			if cut >= 0 && cut < l {
				n := *cand
				cc := cut
				n.Cut = &cc
				out = append(out, &n)
			}
		}
	}
	return out
}

// huntTrailerCoincidence searches (seeded, bounded) for a valid file in which
// the bytes of a prefix cut inside the 8-byte trailer would, read as "footer
// length", point exactly at the real footer: the last four bytes of the thrift
// footer, as a little-endian number, equal the footer length minus four. Only
// for such files does it matter whether a reader looks at the trailing magic;
// they are about one in 20 000 among random files, so the search is directed:
// a thrift FileMetaData ends in [field header, zigzag(num_rows of the last row
// group), STOP, STOP], so the footer length must be 26 + 512*n for a last row
// group of n < 64 rows. The condition is evaluated on the bytes by the harness;
// no reader is involved in the search.
func huntTrailerCoincidence(r *core.Rng) *fileWL {
	shape := allShapes[r.Intn(len(allShapes))]
	sh := core.GetShape(shape)
	for try := 0; try < 150; try++ {
		g := r.Range(1, 9)
		n := r.Range(1, 9)
		w := &core.WriterSpec{Shape: shape, Page: r.Range(1, 8), Codec: core.Codecs[r.Intn(2)]} // gzip is slow and adds nothing to the search
		for b := 0; b < g; b++ {
			k := r.Range(1, 6)
			if b == g-1 {
				k = n
			}
			for i := 0; i < k; i++ {
				w.Ops = append(w.Ops, core.AddOp(core.GenRec(r, sh.Type, core.Benign)))
			}
			w.Ops = append(w.Ops, core.WriteOp())
		}
		w.Ops = append(w.Ops, core.CloseOp())
		ref, ok := refWrite(w)
		if !ok {
			return nil
		}
		d := ref.Sink.Data
		if len(d) < 16 {
			continue
		}
		flen := int(d[len(d)-8]) | int(d[len(d)-7])<<8 | int(d[len(d)-6])<<16 | int(d[len(d)-5])<<24
		last := int(d[len(d)-12]) | int(d[len(d)-11])<<8 | int(d[len(d)-10])<<16 | int(d[len(d)-9])<<24
		if last == flen-4 {
			f := &fileWL{W: w, Ref: ref, Data: d, Want: core.Flatten(ref.Batches), Regions: sinkRegions(ref)}
			f.Digest = core.HashBytes(append([]byte(w.HistoryString()), f.Data...))
			return f
		}
	}
	return nil
}

// embeddedTrailerFile builds a valid file one of whose string values is itself
// a complete Parquet file of the same shape ("a table that archives an older
// export of itself in a string column"). The prefix that ends right after that
// value ends in FileMetaData|len|PAR1 and therefore passes the footer check.
// The embedded file starts with the same first k batches as the outer file
// (so its first k row groups ARE readable from the prefix, byte for byte),
// continues with batches the outer file does not have, and ends with a batch of
// more rows than the whole outer file holds: a reader cannot find that many
// values before the embedded bytes, so the prefix is never a readable file and
// reading it must end in a reported error - after delivering, possibly, the
// rows of the first k row groups.
func embeddedTrailerFile(r *core.Rng) *fileWL {
	shape := allShapes[r.Intn(len(allShapes))]
	sh := core.GetShape(shape)
	page := r.Range(1, 6)
	codec := core.Codecs[r.Pick(3, 2, 1)]
	outer := &core.WriterSpec{Shape: shape, Page: page, Codec: codec}
	total := 0
	var batchEnd []int // index in outer.Ops just after each Write
	for b, nb := 0, r.Range(1, 3); b < nb; b++ {
		for i, k := 0, r.Range(1, 3); i < k; i++ {
			outer.Ops = append(outer.Ops, core.AddOp(core.GenRec(r, sh.Type, core.Benign)))
			total++
		}
		outer.Ops = append(outer.Ops, core.WriteOp())
		batchEnd = append(batchEnd, len(outer.Ops))
	}
	outer.Ops = append(outer.Ops, core.CloseOp())
	// the record that will hold the embedded file: the last one (the rest of the outer file is then missing
	// from the prefix), sometimes the first
	target := len(outer.Ops) - 1
	for target >= 0 && outer.Ops[target].K != "add" {
		target--
	}
	if r.Chance(1, 4) {
		target = 0
	}
	// inner: the outer file's first k batches, as far as they do not contain the target record ...
	inner := &core.WriterSpec{Shape: shape, Page: page, Codec: codec}
	k := r.Range(0, len(batchEnd))
	for k > 0 && batchEnd[k-1] > target {
		k--
	}
	if k > 0 {
		inner.Ops = append(inner.Ops, outer.Ops[:batchEnd[k-1]]...)
	}
	// ... then 0..2 batches of its own, then one that is larger than the whole outer file
	for b, nb := 0, r.Range(0, 2); b < nb; b++ {
		for i, n := 0, r.Range(1, 4); i < n; i++ {
			inner.Ops = append(inner.Ops, core.AddOp(core.GenRec(r, sh.Type, core.Benign)))
		}
		inner.Ops = append(inner.Ops, core.WriteOp())
	}
	for i, n := 0, total+r.Range(2, 6); i < n; i++ {
		inner.Ops = append(inner.Ops, core.AddOp(core.GenRec(r, sh.Type, core.Benign)))
	}
	inner.Ops = append(inner.Ops, core.WriteOp(), core.CloseOp())
	iref, ok := refWrite(inner)
	if !ok {
		return nil
	}
	rec := outer.Ops[target].Val(sh)
	rec2, done := setFirstString(rec, string(iref.Sink.Data), r.Intn(4))
	if !done {
		return nil
	}
	outer.Ops[target] = core.AddOp(rec2)
	ref, ok := refWrite(outer)
	if !ok {
		return nil
	}
	f := &fileWL{W: outer, Ref: ref, Data: ref.Sink.Data, Want: core.Flatten(ref.Batches), Regions: sinkRegions(ref)}
	f.Digest = core.HashBytes(append([]byte(outer.HistoryString()), f.Data...))
	return f
}

// embeddedForeignFile is the third embedded-trailer construction: one string
// value of the file is a complete Parquet file written from ANOTHER struct (a
// table that stores exports of other tables as attachments), with one to three
// row groups. The prefix that ends right after that value ends in a trailer
// that names columns the reading struct does not have (at least one leaf path
// of the attachment's struct is not a leaf path of the reading struct, checked
// here), so it is not a file of the reading struct whatever else it is; the
// outer file really was cut, and nothing the attachment's footer describes is
// at the place a reader would look for it.
func embeddedForeignFile(r *core.Rng) *fileWL {
	shape := allShapes[r.Intn(len(allShapes))]
	sh := core.GetShape(shape)
	var ishape string
	for try := 0; ; try++ {
		if try > 20 {
			return nil
		}
		ishape = allShapes[r.Intn(len(allShapes))]
		if ishape == shape || ishape == "wide" {
			continue
		}
		have := map[string]bool{}
		for _, l := range leavesOf(sh.Type) {
			have[strings.Join(l.Elems, "\x00")] = true
		}
		foreign := false
		for _, l := range leavesOf(core.GetShape(ishape).Type) {
			if !have[strings.Join(l.Elems, "\x00")] {
				foreign = true
			}
		}
		if foreign {
			break
		}
	}
	ish := core.GetShape(ishape)
	page := r.Range(1, 6)
	codec := core.Codecs[r.Pick(3, 2, 1)]
	inner := &core.WriterSpec{Shape: ishape, Page: r.Range(1, 6), Codec: core.Codecs[r.Pick(3, 2, 1)]}
	for b, nb := 0, r.Range(1, 3); b < nb; b++ {
		for i, n := 0, r.Range(1, 4); i < n; i++ {
			inner.Ops = append(inner.Ops, core.AddOp(core.GenRec(r, ish.Type, core.Benign)))
		}
		inner.Ops = append(inner.Ops, core.WriteOp())
	}
	inner.Ops = append(inner.Ops, core.CloseOp())
	iref, ok := refWrite(inner)
	if !ok {
		return nil
	}
	outer := &core.WriterSpec{Shape: shape, Page: page, Codec: codec}
	var adds []int
	for b, nb := 0, r.Range(1, 3); b < nb; b++ {
		for i, k := 0, r.Range(1, 3); i < k; i++ {
			adds = append(adds, len(outer.Ops))
			outer.Ops = append(outer.Ops, core.AddOp(core.GenRec(r, sh.Type, core.Benign)))
		}
		outer.Ops = append(outer.Ops, core.WriteOp())
	}
	outer.Ops = append(outer.Ops, core.CloseOp())
	target := adds[r.Intn(len(adds))]
	rec2, done := setFirstString(outer.Ops[target].Val(sh), string(iref.Sink.Data), r.Intn(4))
	if !done {
		return nil
	}
	outer.Ops[target] = core.AddOp(rec2)
	ref, ok := refWrite(outer)
	if !ok {
		return nil
	}
	f := &fileWL{W: outer, Ref: ref, Data: ref.Sink.Data, Want: core.Flatten(ref.Batches), Regions: sinkRegions(ref), Foreign: true}
	f.Digest = core.HashBytes(append([]byte(outer.HistoryString()), f.Data...))
	return f
}

// embeddedNearMissFile is the second embedded-trailer construction: the
// embedded file is small (one row group of one record) and everything it
// describes IS present at the head of the outer file - except that the page
// holding the embedded value itself is cut short by the crash. The outer
// file's first row group has at least two records in a single page per column
// and the embedded file sits in the FIRST record, so the cut right after it
// always falls inside that page's body (or, for the copy in the page
// statistics, inside the page header): the only thing between this prefix and
// acceptance is that a page body shorter than its header announces is an error.
func embeddedNearMissFile(r *core.Rng) *fileWL {
	shape := allShapes[r.Intn(len(allShapes))]
	sh := core.GetShape(shape)
	page := r.Range(2, 6)
	codec := core.Codecs[r.Pick(3, 2, 1)]
	inner := &core.WriterSpec{Shape: shape, Page: page, Codec: codec}
	inner.Ops = append(inner.Ops, core.AddOp(core.GenRec(r, sh.Type, core.Benign)), core.WriteOp(), core.CloseOp())
	iref, ok := refWrite(inner)
	if !ok {
		return nil
	}
	outer := &core.WriterSpec{Shape: shape, Page: page, Codec: codec}
	first := core.GenRec(r, sh.Type, core.Benign)
	first2, done := setFirstString(first, string(iref.Sink.Data), r.Intn(4))
	if !done {
		return nil
	}
	outer.Ops = append(outer.Ops, core.AddOp(first2))
	prof := core.Benign
	if r.Chance(1, 2) {
		prof.MaxStr = 3000 // the page that holds the embedded file grows beyond 4 KiB
	}
	for i, n := 0, r.Range(1, page-1); i < n; i++ {
		outer.Ops = append(outer.Ops, core.AddOp(core.GenRec(r, sh.Type, prof)))
	}
	outer.Ops = append(outer.Ops, core.WriteOp())
	if r.Chance(1, 2) {
		outer.Ops = append(outer.Ops, core.AddOp(core.GenRec(r, sh.Type, core.Benign)), core.WriteOp())
	}
	outer.Ops = append(outer.Ops, core.CloseOp())
	ref, ok := refWrite(outer)
	if !ok {
		return nil
	}
	// the construction is only sound if every copy of the embedded file that lies in a page BODY ends
	// strictly before the end of that body (a later value follows it in the same page): otherwise the
	// prefix holds only complete pages and is a readable file that no reader can reject. Checked on the
	// bytes with the independent parser; a candidate that does not qualify is dropped.
	data := ref.Sink.Data
	pf, prob := pq.Parse(data, leavesOf(sh.Type))
	if prob != nil {
		return nil
	}
	payload := iref.Sink.Data
	for off := 0; ; {
		i := bytes.Index(data[off:], payload)
		if i < 0 {
			break
		}
		end := off + i + len(payload)
		for _, rg := range pf.RowGroups {
			for _, ch := range rg.Chunks {
				for _, pg := range ch.Pages {
					bodyStart := pg.Off + pg.HeaderLen
					bodyEnd := bodyStart + int(pg.CompSize)
					if end > bodyStart && end >= bodyEnd && off+i < bodyEnd {
						return nil // the copy reaches the end of its page body
					}
				}
			}
		}
		off = end
	}
	f := &fileWL{W: outer, Ref: ref, Data: data, Want: core.Flatten(ref.Batches), Regions: sinkRegions(ref)}
	f.Digest = core.HashBytes(append([]byte(outer.HistoryString()), f.Data...))
	return f
}

// setFirstString returns a copy of rec in which the (skip+1)-th reachable
// string (field, pointer target or first slice element) is replaced by s.
func setFirstString(rec interface{}, s string, skip int) (interface{}, bool) {
	cp := core.CopyRec(rec)
	v := reflect.New(reflect.TypeOf(cp)).Elem()
	v.Set(reflect.ValueOf(cp))
	var targets []reflect.Value
	var walk func(v reflect.Value)
	walk = func(v reflect.Value) {
		switch v.Kind() {
		case reflect.String:
			if v.CanSet() {
				targets = append(targets, v)
			}
		case reflect.Ptr:
			if v.IsNil() && v.CanSet() && (v.Type().Elem().Kind() == reflect.String || v.Type().Elem().Kind() == reflect.Struct) {
				v.Set(reflect.New(v.Type().Elem()))
			}
			if !v.IsNil() {
				walk(v.Elem())
			}
		case reflect.Slice:
			if v.Len() == 0 && v.CanSet() && (v.Type().Elem().Kind() == reflect.String || v.Type().Elem().Kind() == reflect.Struct) {
				v.Set(reflect.MakeSlice(v.Type(), 1, 1))
			}
			for i := 0; i < v.Len(); i++ {
				walk(v.Index(i))
			}
		case reflect.Struct:
			for i := 0; i < v.NumField(); i++ {
				if v.Type().Field(i).PkgPath == "" {
					walk(v.Field(i))
				}
			}
		}
	}
	walk(v)
	if len(targets) == 0 {
		return nil, false
	}
	targets[skip%len(targets)].SetString(s)
	return v.Interface(), true
}

// c11FullRead reads the complete file once through a file-like source of the
// same name the prefixes will be opened under: the process has then seen the
// complete file before it sees what a crash left of it.
func c11FullRead(f *fileWL, limit int) *core.ReadResult {
	src := core.NewSource(f.Data, nil, nil)
	src.MaxCalls = 400000 + 400*len(f.Data)
	src.FileName = fmt.Sprintf("sim-%016x.parquet", f.Digest)
	return core.ExecReader(f.W.ReadShape(), src.AsReadSeeker("rsf"), limit, nil)
}

package props

import (
	"bytes"
	"fmt"

	pool "github.com/valyala/bytebufferpool"

	"verifsim/core"
)

// C13 - output depends only on an instance's own history; instances do not
// interfere.
//
// Whole-process simulation: 2-4 writer/reader instances as tasks under the
// seeded baton scheduler, over the simulator-owned buffer pool (adversarial
// reuse order, poison on release, prefilled history, prior instances).
type c13 struct{}

func init() { Register(c13{}) }

func (c13) ID() string    { return "C13" }
func (c13) Level() string { return "exploration" }
func (c13) Rule() string {
	return "case = 2-4 instances (writers and readers, mixed shapes/codecs/page sizes, each with its own seeded history) x scheduler policy {uniform, sticky(p), round-robin(q), switch-on-Put, switch-on-Get, PCT(d<=3)} x pool policy {lifo, fifo, random reuse; seeded capacities with garbage; prefilled pools; 0-3 prior instances run to completion first}. Three phases per run: solo reference of every instance on a pristine non-reusing pool, prior history, interleaved execution; every pool Get/Put, every ByteBuffer method, every sink write and every source read is a scheduling point. Oracle: interleaved bytes/records == solo reference, no write into a released buffer (poison checksum), no double release, no panic. One run in 40 is a fresh-process case instead: 2-4 instances (biased to twin shapes: same column names, different physical types) executed sequentially in several freshly started OS processes (each alone, all in two orders, one repeated last); an instance must produce the same output in every process; every process lifetime has its own environment (GOMAXPROCS 1/4/2/16/3, GOGC 100/1/off/25, TZ), and in one such case in twelve instance 0 writes a single gzip page of more than 2 MiB. Non-trivial = the executed schedule pre-empted a task at least once while it held a pool buffer; distinct = distinct (workload digest, executed-schedule hash, pool policy)."
}
func (c13) Assumptions() []string {
	return []string{
		"tasks are serialised: an interference is visible only if a scheduling point lies between the conflicting accesses; all accesses to the shared pools and their buffers go through the simulator-owned pool (scheduling points) and direct writes through ByteBuffer.B are caught by the poison checksum",
		"new package-level mutable state that is touched without crossing a seam is invisible to the serialised simulation; the supplementary race-detector monitor (thorough tier, real goroutines, real bytebufferpool, not deterministic) covers the 'free of data races' clause",
		"bytebufferpool is replaced by the simulator's pool (ByteBuffer logic copied from v1.0.0)",
	}
}
func (c13) Probes() []string {
	return []string{"procs/giant-gzip-page", "pool/cross-task-reuse", "pool/prefill-consumed", "pool/poison-verified", "sched/uniform", "sched/sticky", "sched/roundrobin", "sched/onput", "sched/onget", "sched/pct", "get/lifo", "get/fifo", "get/random", "prior-instances", "tasks/reader", "tasks/writer", "tasks/with-own-fault", "tasks/reader-mode-count", "tasks/reader-mode-abandon", "tasks/writer-abandoned-without-Close", "preempt-while-holding", "procs/cases", "procs/twin-shapes-in-one-process"}
}
func (c13) Runs(tier string) int {
	if tier == "thorough" {
		return 300000
	}
	return 12000
}

var schedPolicies = []string{"uniform", "sticky", "roundrobin", "onput", "onget", "pct"}
var getPolicies = []string{"lifo", "fifo", "random"}
var newCapChoices = []int{0, 1, 7, 64, 4096, 1 << 16}

func c13Task(r *core.Rng, tier string) core.TaskSpec {
	o := core.HistOpts{Shapes: c13Shapes, PageMin: 1, PageMax: 4, MinBatches: 1, MaxBatches: 3, MaxOps: 10, Profile: core.Benign}
	o.HugePct = 1
	o.ManyPct, o.ManyMax = 2, 24 // footers beyond 4 KiB, many row groups per instance
	if tier == "thorough" {
		o.MaxOps = 16
		o.LargePct = 1
		o.ManyPct, o.ManyMax = 2, 40
	}
	w := core.GenHistory(r, o)
	t := core.TaskSpec{Kind: "writer", W: w}
	if r.Chance(1, 3) {
		t.Kind = "reader"
		t.SourceKind = []string{"rs", "rsb", "rsx", "rsf"}[r.Intn(4)]
		// one reader in four is used differently from the documented loop (all are legal histories)
		if r.Chance(1, 4) {
			t.ReadMode = []string{"count", "alt", "abandon"}[r.Intn(3)]
		}
	} else {
		if r.Chance(1, 2) {
			t.SinkKind = "wx"
		}
		// one writer in eight is abandoned without Close
		if r.Chance(1, 8) && len(w.Ops) > 0 && w.Ops[len(w.Ops)-1].K == "close" {
			w.Ops = w.Ops[:len(w.Ops)-1]
			t.NoClose = true
		}
	}
	// one instance in five meets a fault of its own (error paths release buffers too);
	// its solo reference runs with the same fault plan
	if r.Chance(1, 5) {
		if t.Kind == "writer" {
			t.SinkFault = &core.SinkFault{K: r.Range(1, 40), Kind: []string{"err0", "torn"}[r.Intn(2)], Arg: r.Intn(1 << 16), Sticky: r.Chance(1, 2)}
		} else {
			t.SrcFault = &core.SrcFault{K: r.Range(1, 1500), Kind: []string{"err0", "partial", "early_eof"}[r.Intn(3)], Arg: r.Intn(1 << 16), Sticky: r.Chance(1, 2)}
		}
	}
	return t
}

func (p c13) Run(runseed uint64, tier string, acc *Acc) []*core.Violation {
	r := core.NewRng(runseed)
	acc.Runs++
	if r.Chance(1, 40) {
		// fresh-process arm: whole process lifetimes, restart = new OS process
		c := p.genProcs(r, tier, runseed)
		res, err := p.execProcs(c)
		acc.Evals++
		if err != nil {
			acc.Unusable++
			acc.Inc("procs/child-error")
			return nil
		}
		acc.Steps += res.steps
		acc.MixFP(res.fp)
		acc.Inc("procs/cases")
		acc.AddN("procs/fresh-processes", len(c.Procs))
		twin := map[string]bool{}
		for _, t := range c.Tasks {
			twin[t.W.Shape] = true
		}
		if (twin["flat"] && twin["flatb"]) || (twin["nested"] && twin["nestedb"]) {
			acc.Inc("procs/twin-shapes-in-one-process")
		}
		acc.Mark(core.Mix(res.fp, 0x9c5), 1)
		if c.Tasks[0].W.Huge && c.Tasks[0].W.Page == 64 && c.Tasks[0].W.Shape == "kv" {
			acc.Inc("procs/giant-gzip-page")
		} else if acc.Counters["procs/sampled"] == 0 {
			acc.Inc("procs/sampled")
			acc.Sample(c, 4)
		}
		if res.vio != nil {
			return []*core.Violation{res.vio}
		}
		return nil
	}
	c := &core.Case{Prop: "C13", Seed: runseed}
	nt := r.Range(2, 4)
	for i := 0; i < nt; i++ {
		c.Tasks = append(c.Tasks, c13Task(r, tier))
	}
	c.Sched = &core.SchedSpec{Policy: schedPolicies[r.Intn(len(schedPolicies))], Seed: r.Uint64()}
	switch c.Sched.Policy {
	case "sticky":
		c.Sched.Arg = []int{2, 10, 30, 60}[r.Intn(4)]
	case "roundrobin":
		c.Sched.Arg = r.Range(1, 9)
	case "pct":
		c.Sched.Arg = r.Range(1, 3)
	}
	c.Pool = &core.PoolSpec{Get: getPolicies[r.Intn(len(getPolicies))], Seed: r.Uint64()}
	for i, n := 0, r.Range(0, 3); i < n; i++ {
		c.Pool.NewCaps = append(c.Pool.NewCaps, newCapChoices[r.Intn(len(newCapChoices))])
	}
	if r.Chance(1, 2) {
		for i, n := 0, r.Range(1, 4); i < n; i++ {
			c.Pool.Prefill = append(c.Pool.Prefill, core.PreBuf{Cap: newCapChoices[1+r.Intn(len(newCapChoices)-1)], Fill: byte(r.Intn(256))})
		}
	}
	if r.Chance(1, 2) {
		for i, n := 0, r.Range(1, 3); i < n; i++ {
			c.Pool.Prior = append(c.Pool.Prior, c13Task(r, tier))
		}
	}
	res, err := p.exec(c)
	acc.Evals++
	if err != nil {
		acc.Unusable++
		return nil
	}
	acc.Steps += res.steps
	acc.MixFP(res.fp)
	acc.Inc("sched/" + c.Sched.Policy)
	acc.Inc("get/" + c.Pool.Get)
	for _, t := range c.Tasks {
		acc.Inc("tasks/" + t.Kind)
		if t.SinkFault != nil || t.SrcFault != nil {
			acc.Inc("tasks/with-own-fault")
		}
		if t.ReadMode != "" {
			acc.Inc("tasks/reader-mode-" + t.ReadMode)
		}
		if t.NoClose {
			acc.Inc("tasks/writer-abandoned-without-Close")
		}
	}
	if len(c.Pool.Prior) > 0 {
		acc.Inc("prior-instances")
	}
	acc.AddN("pool/cross-task-reuse", res.pool.CrossTask)
	acc.AddN("pool/prefill-consumed", res.pool.PrefillConsumed)
	acc.AddN("pool/poison-verified", res.pool.PoisonChecked)
	acc.AddN("pool/reused", res.pool.Reused)
	acc.AddN("pool/gets", res.pool.Gets)
	acc.AddN("sched/context-switches", res.switches)
	acc.AddN("preempt-while-holding", res.preemptHolding)
	if res.preemptHolding > 0 {
		acc.Mark(core.Mix(res.wlDigest, res.schedHash, core.HashString(c.Pool.Get)), 1)
	}
	if acc.Runs%400 == 1 {
		acc.Sample(c, 2)
	}
	if res.vio != nil {
		// the replay file stores the executed schedule explicitly
		rc := c.Clone()
		rc.Sched = &core.SchedSpec{Policy: "explicit", Explicit: res.executed}
		res.vio.Case = rc
		return []*core.Violation{res.vio}
	}
	return nil
}

type c13Result struct {
	vio            *core.Violation
	steps          int
	switches       int
	preemptHolding int
	executed       []core.Segment
	schedHash      uint64
	wlDigest       uint64
	fp             uint64
	pool           pool.Stats
}

type c13Ref struct {
	file  []byte // reader: the file it reads
	bytes []byte // writer: reference output
	apis  []core.APIResult
	read  *core.ReadResult
}

// reference runs one task alone on a pristine, non-reusing, non-poisoning pool.
func c13Reference(t *core.TaskSpec) (*c13Ref, error) {
	pool.Install(&pool.Config{Fresh: true})
	defer pool.Uninstall()
	if t.Kind == "writer" {
		sink := &core.Sink{Fault: t.SinkFault}
		wr := core.ExecWriterKind(t.W, sink, sinkKindOr(t.SinkKind))
		ref := &c13Ref{apis: wr.APIs, bytes: sink.Data}
		for _, a := range wr.APIs {
			if a.Panic != "" {
				return nil, fmt.Errorf("reference writer run panicked")
			}
		}
		if sink.Fired == 0 && (wr.Failed() != nil || (!wr.Closed && !t.NoClose)) {
			return nil, fmt.Errorf("reference writer run failed without a fault")
		}
		return ref, nil
	}
	sink := &core.Sink{}
	wr := core.ExecWriter(t.W, sink)
	ref := &c13Ref{apis: wr.APIs}
	if wr.Failed() != nil || !wr.Closed {
		return nil, fmt.Errorf("reference writer run failed")
	}
	ref.file = sink.Data
	src := core.NewSource(ref.file, nil, t.SrcFault)
	src.MaxCalls = 400000 + 400*len(ref.file)
	ref.read = core.ExecReaderMode(t.W.Shape, src.AsReadSeeker(kindOr(t.SourceKind)), 1<<20, nil, t.ReadMode)
	if ref.read.Panic != "" || ref.read.Hang || (src.Stats.Fired == 0 && ref.read.Reported()) {
		return nil, fmt.Errorf("reference reader run failed")
	}
	return ref, nil
}

func (p c13) exec(c *core.Case) (*c13Result, error) {
	if len(c.Procs) > 0 {
		return p.execProcs(c)
	}
	if len(c.Tasks) == 0 || c.Sched == nil || c.Pool == nil {
		return nil, fmt.Errorf("C13 case needs tasks, sched and pool")
	}
	res := &c13Result{}
	// phase 1: solo references
	refs := make([]*c13Ref, len(c.Tasks))
	wl := uint64(0)
	for i := range c.Tasks {
		ref, err := c13Reference(&c.Tasks[i])
		if err != nil {
			return nil, err
		}
		refs[i] = ref
		// "repeating a history gives byte-identical output": the solo run, repeated at once
		if again, err2 := c13Reference(&c.Tasks[i]); err2 == nil && res.vio == nil {
			t := &c.Tasks[i]
			if !bytes.Equal(again.bytes, ref.bytes) {
				res.vio = &core.Violation{Prop: "C13", Sig: "C13/nondeterministic/writer", Case: c,
					Detail: fmt.Sprintf("task %d (writer %s): running the same history alone twice in a row gives different bytes (first difference at offset %d)", i, t.W.HistoryString(), firstDiff(again.bytes, ref.bytes))}
			} else if t.Kind == "reader" {
				if ok, why := core.EqualRecs(again.read.Recs, ref.read.Recs); !ok || again.read.Reported() != ref.read.Reported() {
					res.vio = &core.Violation{Prop: "C13", Sig: "C13/nondeterministic/reader", Case: c,
						Detail: fmt.Sprintf("task %d (reader of %s): reading the same file alone twice in a row gives different results: %s", i, t.W.HistoryString(), why)}
				}
			}
		}
		wl = core.Mix(wl, core.HashString(c.Tasks[i].Kind+c.Tasks[i].W.HistoryString()), core.HashBytes(ref.bytes), core.HashBytes(ref.file))
	}
	res.wlDigest = wl
	var priorFiles [][]byte
	for i := range c.Pool.Prior {
		ref, err := c13Reference(&c.Pool.Prior[i])
		if err != nil {
			return nil, err
		}
		priorFiles = append(priorFiles, ref.file)
	}

	if res.vio != nil {
		return res, nil
	}

	// phase 2: prior history on the simulated pool
	var sched *core.Sched
	cfg := &pool.Config{Get: c.Pool.Get, Seed: c.Pool.Seed, NewCaps: c.Pool.NewCaps}
	for _, pb := range c.Pool.Prefill {
		cfg.Prefill = append(cfg.Prefill, pool.PreBuf{Cap: pb.Cap, Fill: pb.Fill})
	}
	cfg.Yield = func(op string) {
		if sched != nil {
			sched.Yield(op)
		}
	}
	cfg.Task = func() int {
		if sched != nil {
			return sched.Cur()
		}
		return -2
	}
	st := pool.Install(cfg)
	defer pool.Uninstall()
	for i := range c.Pool.Prior {
		t := &c.Pool.Prior[i]
		if t.Kind == "writer" {
			core.ExecWriterKind(t.W, &core.Sink{Fault: t.SinkFault}, sinkKindOr(t.SinkKind))
		} else {
			src := core.NewSource(priorFiles[i], nil, t.SrcFault)
			src.MaxCalls = 400000 + 400*len(priorFiles[i])
			core.ExecReaderMode(t.W.Shape, src.AsReadSeeker(kindOr(t.SourceKind)), 1<<20, nil, t.ReadMode)
		}
	}

	// phase 3: interleaved
	sinks := make([]*core.Sink, len(c.Tasks))
	wres := make([]*core.WriteResult, len(c.Tasks))
	rres := make([]*core.ReadResult, len(c.Tasks))
	var fns []func()
	expected := 0
	for i := range c.Tasks {
		i := i
		t := &c.Tasks[i]
		if t.Kind == "writer" {
			sinks[i] = &core.Sink{Fault: t.SinkFault, Yield: func() { sched.Yield("sink") }}
			fns = append(fns, func() { wres[i] = core.ExecWriterKind(t.W, sinks[i], sinkKindOr(t.SinkKind)) })
			expected += 40 * len(refs[i].bytes)
		} else {
			src := core.NewSource(refs[i].file, nil, t.SrcFault)
			src.Yield = func() { sched.Yield("source") }
			fns = append(fns, func() {
				rres[i] = core.ExecReaderMode(t.W.Shape, src.AsReadSeeker(kindOr(t.SourceKind)), 2*len(refs[i].read.Recs)+16, func(string) { sched.Yield("api") }, t.ReadMode)
			})
			expected += 40 * len(refs[i].file)
		}
	}
	sched = core.NewSched(c.Sched, fns)
	sched.MaxSteps = 200000 + expected
	sched.OnSwitch = func(from, to int) {
		if st.Held(from) > 0 {
			res.preemptHolding++
		}
	}
	finished := sched.Run()
	theSched := sched
	sched = nil
	st.Finish()
	res.steps = theSched.Steps
	res.switches = theSched.Switches
	res.executed = theSched.Executed
	res.schedHash = core.ScheduleHash(theSched.Executed)
	res.pool = st.Stats
	fp := core.Mix(res.wlDigest, res.schedHash, uint64(st.Stats.Gets), uint64(st.Stats.Reused), uint64(st.Stats.CrossTask))
	mk := func(sig, detail string) {
		if res.vio == nil {
			res.vio = &core.Violation{Prop: "C13", Sig: "C13/" + sig,
				Detail: fmt.Sprintf("%s [%d tasks, scheduler %s, pool %s, %d context switches, %d cross-task buffer reuses]", detail, len(c.Tasks), c.Sched.Policy, c.Pool.Get, theSched.Switches, st.Stats.CrossTask), Case: c}
		}
	}
	if !finished {
		mk("hang", "the interleaved run did not finish within the step cap")
		res.fp = fp
		return res, nil
	}
	for i := range c.Tasks {
		t := &c.Tasks[i]
		if t.Kind == "writer" {
			wr := wres[i]
			fp = core.Mix(fp, core.HashBytes(sinks[i].Data))
			if f := wr.Failed(); f != nil && f.Panic != "" {
				mk("panic/writer", fmt.Sprintf("task %d (%s) %s panicked in the interleaved run: %s", i, t.W.HistoryString(), f.API, f.Panic))
				continue
			}
			if d := apiDiff(wr.APIs, refs[i].apis); d != "" {
				mk("error/writer", fmt.Sprintf("task %d (%s): %s", i, t.W.HistoryString(), d))
				continue
			}
			if !bytes.Equal(sinks[i].Data, refs[i].bytes) {
				mk("bytes-differ/writer", fmt.Sprintf("task %d (writer %s) produced %d bytes that differ from the %d bytes of its solo run (first difference at offset %d)", i, t.W.HistoryString(), len(sinks[i].Data), len(refs[i].bytes), firstDiff(sinks[i].Data, refs[i].bytes)))
			}
		} else {
			rr := rres[i]
			ref := refs[i].read
			fp = core.Mix(fp, uint64(len(rr.Recs)))
			switch {
			case rr.Panic != "":
				mk("panic/reader", fmt.Sprintf("task %d (reader of %s) panicked in the interleaved run: %s", i, t.W.HistoryString(), rr.Panic))
			case rr.CtorFail != ref.CtorFail || rr.Failed != ref.Failed:
				mk("error/reader", fmt.Sprintf("task %d (reader of %s): error reporting differs from the solo run (interleaved: ctor %q Error() %q; alone: ctor %q Error() %q)", i, t.W.HistoryString(), rr.CtorErr, rr.FinalErr, ref.CtorErr, ref.FinalErr))
			case rr.Runaway || rr.Rows != ref.Rows:
				mk("records-differ/reader", fmt.Sprintf("task %d (reader of %s): Rows() %d vs %d alone", i, t.W.HistoryString(), rr.Rows, ref.Rows))
			default:
				if ok, why := core.EqualRecs(rr.Recs, ref.Recs); !ok {
					mk("records-differ/reader", fmt.Sprintf("task %d (reader of %s): %s", i, t.W.HistoryString(), why))
				}
			}
		}
	}
	// "repeating a history gives byte-identical output regardless of what other
	// instances did earlier in the process": every writer runs alone once more,
	// after the prior and interleaved phases, and must reproduce its first solo run
	pool.Uninstall()
	for i := range c.Tasks {
		t := &c.Tasks[i]
		if t.Kind != "writer" || res.vio != nil {
			continue
		}
		again, err := c13Reference(t)
		if err != nil {
			mk("history-dependent/writer", fmt.Sprintf("task %d (writer %s) cannot repeat its solo run after the other instances ran: %v", i, t.W.HistoryString(), err))
		} else if !bytes.Equal(again.bytes, refs[i].bytes) {
			mk("history-dependent/writer", fmt.Sprintf("task %d (writer %s): repeating the same history alone after the other instances ran gives different bytes (first difference at offset %d)", i, t.W.HistoryString(), firstDiff(again.bytes, refs[i].bytes)))
		}
	}
	for _, v := range st.Violations {
		kind := "pool-discipline"
		if len(v) > 6 && v[:6] == "double" {
			kind = "double-put"
		} else if len(v) > 5 && v[:5] == "write" {
			kind = "write-after-release"
		}
		mk(kind, v)
	}
	res.fp = fp
	return res, nil
}

// apiDiff compares the API outcomes of an interleaved run with the solo run.
func apiDiff(got, want []core.APIResult) string {
	if len(got) != len(want) {
		return fmt.Sprintf("%d API calls completed in the interleaved run, %d when run alone", len(got), len(want))
	}
	for i := range got {
		if got[i].API != want[i].API || got[i].IsErr != want[i].IsErr {
			return fmt.Sprintf("%s returned error %q in the interleaved run, %q when run alone", got[i].API, got[i].Err, want[i].Err)
		}
	}
	return ""
}

func firstDiff(a, b []byte) int {
	n := len(a)
	if len(b) < n {
		n = len(b)
	}
	for i := 0; i < n; i++ {
		if a[i] != b[i] {
			return i
		}
	}
	return n
}

func (p c13) Check(c *core.Case) (*core.Violation, error) {
	res, err := p.exec(c)
	if err != nil {
		return nil, err
	}
	return res.vio, nil
}

func (p c13) Shrink(c *core.Case) []*core.Case {
	if len(c.Procs) > 0 {
		return shrinkProcs(c)
	}
	var out []*core.Case
	clone := func() *core.Case { return c.Clone() }
	// fewer prior instances, no prefill, simpler pool
	if len(c.Pool.Prior) > 0 {
		n := clone()
		n.Pool.Prior = nil
		out = append(out, n)
		for i := range c.Pool.Prior {
			n := clone()
			n.Pool.Prior = append(n.Pool.Prior[:i:i], n.Pool.Prior[i+1:]...)
			out = append(out, n)
		}
	}
	if len(c.Pool.Prefill) > 0 {
		n := clone()
		n.Pool.Prefill = nil
		out = append(out, n)
	}
	if len(c.Pool.NewCaps) > 0 {
		n := clone()
		n.Pool.NewCaps = nil
		out = append(out, n)
	}
	if c.Pool.Get != "lifo" {
		n := clone()
		n.Pool.Get = "lifo"
		out = append(out, n)
	}
	// fewer tasks (explicit schedules refer to task ids: renumber)
	if len(c.Tasks) > 1 {
		for i := range c.Tasks {
			n := clone()
			n.Tasks = append(n.Tasks[:i:i], n.Tasks[i+1:]...)
			if n.Sched.Policy == "explicit" {
				var segs []core.Segment
				for _, s := range n.Sched.Explicit {
					if s.Task == i {
						continue
					}
					if s.Task > i {
						s.Task--
					}
					if k := len(segs); k > 0 && segs[k-1].Task == s.Task {
						segs[k-1].Steps += s.Steps
					} else {
						segs = append(segs, s)
					}
				}
				n.Sched.Explicit = segs
			}
			out = append(out, n)
		}
	}
	// simpler schedule: sequential, then merge neighbouring segments
	if c.Sched.Policy == "explicit" && len(c.Sched.Explicit) > len(c.Tasks) {
		n := clone()
		n.Sched.Explicit = nil // run the tasks one after the other
		out = append(out, n)
		segs := c.Sched.Explicit
		for chunk := len(segs) / 2; chunk >= 1; chunk /= 2 {
			for start := 0; start+chunk <= len(segs) && len(out) < 200; start += chunk {
				n := clone()
				var ns []core.Segment
				ns = append(ns, segs[:start]...)
				// give the dropped segments' steps to the segment before them
				extra := 0
				for _, s := range segs[start : start+chunk] {
					extra += s.Steps
				}
				if len(ns) > 0 {
					ns[len(ns)-1].Steps += extra
				}
				ns = append(ns, segs[start+chunk:]...)
				n.Sched.Explicit = ns
				out = append(out, n)
			}
			if chunk == 1 {
				break
			}
		}
	}
	// simpler histories per task
	for i := range c.Tasks {
		for _, w := range core.ShrinkWriter(c.Tasks[i].W) {
			n := clone()
			n.Tasks[i].W = w
			out = append(out, n)
			if len(out) > 400 {
				return out
			}
		}
	}
	return out
}

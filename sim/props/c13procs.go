package props

import (
	"bytes"
	"encoding/json"
	"fmt"
	"os"
	"os/exec"
	"strings"

	pool "github.com/valyala/bytebufferpool"

	"verifsim/core"
)

// C13, fresh-process arm: "repeating a history gives byte-identical output,
// regardless of what other writer/reader instances did earlier in the process".
//
// The interleaving arm compares with a solo run in the SAME OS process, which
// is pristine only with respect to the buffer pool the simulator owns. This
// arm simulates whole process lifetimes instead: every order in Case.Procs is
// executed in its own freshly started OS process (restart = a new process, the
// only state that survives is none), instances one after the other; an
// instance's output must be the same in every process it appears in - alone in
// a pristine process, or after any other instances (including instances of a
// "twin" type with the same column names but different physical types).

// SoloResult is what a child process reports per executed instance.
type SoloResult struct {
	I      int    `json:"i"`
	Digest string `json:"digest"`
	Brief  string `json:"brief"`
}

// RunSolo executes the single order Procs[0] of a case in this (fresh) process
// and writes one SoloResult per instance.
func RunSolo(c *core.Case) ([]SoloResult, error) {
	if len(c.Procs) != 1 {
		return nil, fmt.Errorf("solo: need exactly one order")
	}
	st := pool.Install(&pool.Config{Get: "lifo", Seed: 1})
	defer pool.Uninstall()
	var out []SoloResult
	for _, idx := range c.Procs[0] {
		if idx < 0 || idx >= len(c.Tasks) {
			return nil, fmt.Errorf("solo: bad task index %d", idx)
		}
		t := &c.Tasks[idx]
		sink := &core.Sink{}
		if t.Kind == "writer" {
			sink.Fault = t.SinkFault
		}
		wr := core.ExecWriterKind(t.W, sink, sinkKindOr(t.SinkKind))
		var brief []string
		for _, a := range wr.APIs {
			brief = append(brief, fmt.Sprintf("%s:%v:%v", a.API, a.IsErr, a.Panic != ""))
		}
		h := core.HashBytes(sink.Data)
		if t.Kind == "reader" {
			src := core.NewSource(sink.Data, nil, t.SrcFault)
			src.MaxCalls = 400000 + 400*len(sink.Data)
			rr := core.ExecReaderMode(t.W.Shape, src.AsReadSeeker(kindOr(t.SourceKind)), 1<<20, nil, t.ReadMode)
			brief = append(brief, fmt.Sprintf("rows=%d ctor=%v err=%v panic=%v hang=%v", len(rr.Recs), rr.CtorFail, rr.Failed, rr.Panic != "", rr.Hang))
			for _, rec := range rr.Recs {
				h = core.Mix(h, core.HashBytes(core.RecJSON(rec)))
			}
		}
		out = append(out, SoloResult{I: idx, Digest: fmt.Sprintf("%016x/%d", core.Mix(h, core.HashString(strings.Join(brief, ","))), len(sink.Data)), Brief: strings.Join(brief, ",")})
	}
	st.Finish()
	for _, v := range st.Violations {
		out = append(out, SoloResult{I: -1, Digest: "pool", Brief: v})
	}
	return out, nil
}

func (p c13) execProcs(c *core.Case) (*c13Result, error) {
	self, err := os.Executable()
	if err != nil {
		return nil, err
	}
	res := &c13Result{}
	type seen struct {
		digest string
		brief  string
		order  []int
		env    []string
	}
	first := map[int]seen{}
	fp := uint64(0)
	for pi, order := range c.Procs {
		sub := *c
		sub.Procs = [][]int{order}
		in, _ := json.Marshal(&sub)
		cmd := exec.Command(self, "solo")
		cmd.Stdin = bytes.NewReader(in)
		// every process lifetime gets its own process environment: what an instance
		// writes or returns may not depend on it either (it is neither the instance's
		// call history nor one of its options)
		env := procEnv(pi)
		cmd.Env = append(os.Environ(), env...)
		var stderr bytes.Buffer
		cmd.Stderr = &stderr
		outb, err := cmd.Output()
		if err != nil {
			return nil, fmt.Errorf("solo child failed: %v: %s", err, stderr.String())
		}
		var rs []SoloResult
		if err := json.Unmarshal(outb, &rs); err != nil {
			return nil, fmt.Errorf("solo child: bad output: %v", err)
		}
		res.steps += len(rs)
		for _, r := range rs {
			if r.I < 0 {
				if res.vio == nil {
					res.vio = &core.Violation{Prop: "C13", Sig: "C13/pool-discipline/sequential", Detail: fmt.Sprintf("%s [fresh process running instances %v one after the other]", r.Brief, order), Case: c}
				}
				continue
			}
			fp = core.Mix(fp, uint64(r.I), core.HashString(r.Digest))
			s, ok := first[r.I]
			if !ok {
				first[r.I] = seen{r.Digest, r.Brief, order, env}
				continue
			}
			if s.digest != r.Digest && res.vio == nil {
				t := &c.Tasks[r.I]
				res.vio = &core.Violation{Prop: "C13", Sig: "C13/history-dependent/" + t.Kind,
					Detail: fmt.Sprintf("instance %d (%s %s) produces different output depending on what ran earlier in the process: fresh process (%s) running instances %v gives %s (%s), fresh process (%s) running %v gives %s (%s)",
						r.I, t.Kind, histBrief(t.W), strings.Join(s.env, " "), s.order, s.digest, s.brief, strings.Join(env, " "), order, r.Digest, r.Brief), Case: c}
			}
		}
	}
	res.fp = fp
	return res, nil
}

// procEnv is the process environment of the pi-th process lifetime of a case: a
// function of the position only, so a case replays exactly. The first process
// has the environment every other simulated process runs in.
func procEnv(pi int) []string {
	return []string{
		"GOMAXPROCS=" + []string{"1", "4", "2", "16", "3"}[pi%5],
		"GOGC=" + []string{"100", "1", "off", "25"}[(pi/2)%4],
		"TZ=" + []string{"UTC", "Asia/Kolkata", "America/St_Johns"}[pi%3],
	}
}

func histBrief(w *core.WriterSpec) string {
	h := w.HistoryString()
	if len(h) > 300 {
		h = h[:300] + "..."
	}
	return h
}

// giantTask is a writer whose single batch makes one gzip page body of 2.2-3.6 MiB
// (a few dozen records with strings of 100 000-140 000 bytes in one page):
// work that an implementation might split by the number of processors.
func giantTask(r *core.Rng) core.TaskSpec {
	sh := core.GetShape("kv")
	prof := core.Benign
	w := &core.WriterSpec{Shape: "kv", Codec: "gzip", Page: 64, Huge: true}
	n := r.Range(24, 28)
	for i := 0; i < n; i++ {
		rec := core.GenRec(r, sh.Type, prof)
		w.Ops = append(w.Ops, core.AddOp(core.WithString(rec, "Body", giantString(r, r.Range(100000, 140000)))))
	}
	w.Ops = append(w.Ops, core.WriteOp(), core.CloseOp())
	return core.TaskSpec{Kind: "writer", W: w}
}

func giantString(r *core.Rng, n int) string {
	b := make([]byte, n)
	for i := range b {
		b[i] = byte('a' + r.Intn(26))
	}
	return string(b)
}

// genProcs draws a fresh-process case: 2-4 instances, biased to twin shapes,
// each alone in a pristine process plus two orders of all of them.
func (p c13) genProcs(r *core.Rng, tier string, runseed uint64) *core.Case {
	c := &core.Case{Prop: "C13", Seed: runseed}
	n := r.Range(2, 4)
	twins := [][2]string{{"flat", "flatb"}, {"nested", "nestedb"}}
	for i := 0; i < n; i++ {
		t := c13Task(r, tier)
		if i < 2 && r.Chance(2, 3) {
			// force a twin pair on the first two instances
			pair := twins[int(runseed>>8)%len(twins)]
			if t.W.Shape != pair[i] {
				o := core.HistOpts{Shapes: []string{pair[i]}, PageMin: 1, PageMax: 4, MinBatches: 1, MaxBatches: 2, MaxOps: 8, Profile: core.Benign}
				t.W = core.GenHistory(r, o)
			}
		}
		c.Tasks = append(c.Tasks, t)
	}
	if r.Chance(1, 12) {
		// one case in twelve: instance 0 writes one gzip page of more than 2 MiB
		c.Tasks[0] = giantTask(r)
	}
	for i := 0; i < n; i++ {
		c.Procs = append(c.Procs, []int{i})
	}
	fwd := make([]int, n)
	for i := range fwd {
		fwd[i] = i
	}
	c.Procs = append(c.Procs, append([]int(nil), fwd...))
	rev := make([]int, n)
	for i := range rev {
		rev[i] = n - 1 - i
	}
	c.Procs = append(c.Procs, rev)
	// one order that repeats an instance after the others
	c.Procs = append(c.Procs, append(append([]int{0}, fwd[1:]...), 0))
	return c
}

func shrinkProcs(c *core.Case) []*core.Case {
	var out []*core.Case
	// fewer orders
	for i := range c.Procs {
		if len(c.Procs) > 2 {
			n := c.Clone()
			n.Procs = append(n.Procs[:i:i], n.Procs[i+1:]...)
			out = append(out, n)
		}
	}
	// shorter orders
	for i, o := range c.Procs {
		for j := range o {
			if len(o) > 1 {
				n := c.Clone()
				n.Procs[i] = append(append([]int(nil), o[:j]...), o[j+1:]...)
				out = append(out, n)
			}
		}
	}
	// drop own faults
	for i := range c.Tasks {
		if c.Tasks[i].SinkFault != nil || c.Tasks[i].SrcFault != nil {
			n := c.Clone()
			n.Tasks[i].SinkFault, n.Tasks[i].SrcFault = nil, nil
			out = append(out, n)
		}
	}
	// simpler histories
	for i := range c.Tasks {
		for _, w := range core.ShrinkWriter(c.Tasks[i].W) {
			n := c.Clone()
			n.Tasks[i].W = w
			out = append(out, n)
			if len(out) > 120 {
				return out
			}
		}
	}
	return out
}

// Package props holds one workload generator + oracle per claimed property.
package props

import (
	"encoding/json"
	"fmt"
	"reflect"
	"sort"
	"strings"

	"verifsim/core"
	"verifsim/pq"
)

// Acc accumulates what a worker covered.
type Acc struct {
	Runs      int               `json:"runs"`      // simulated workloads generated
	Evals     int               `json:"evals"`     // cases executed
	Steps     int               `json:"steps"`     // seam events executed
	Unusable  int               `json:"unusable"`  // workloads whose fault-free baseline was not usable
	Counters  map[string]int    `json:"counters"`  // fired faults per kind/site, probes
	Distinct  map[string]int    `json:"distinct"`  // workload digest -> number of non-trivial cases in it
	Samples   []json.RawMessage `json:"samples"`   // a few complete cases
	FP        uint64            `json:"fp"`        // fingerprint over all runs (determinism self-test)
	Truncated bool              `json:"truncated"` // stopped by the wall-clock safety cap
	Index     int               `json:"-"`         // index of the run being executed (set by the driver)
}

func NewAcc() *Acc {
	return &Acc{Counters: map[string]int{}, Distinct: map[string]int{}}
}

func (a *Acc) Inc(key string)         { a.Counters[key]++ }
func (a *Acc) AddN(key string, n int) { a.Counters[key] += n }

// Mark records n non-trivial distinct cases under a workload digest.
func (a *Acc) Mark(digest uint64, n int) {
	if n > 0 {
		a.Distinct[fmt.Sprintf("%016x", digest)] += n
	}
}

func (a *Acc) Sample(c *core.Case, max int) {
	if len(a.Samples) < max {
		if j := c.JSON(); len(j) < 20000 { // keep evidence files readable: no huge-value cases as samples
			a.Samples = append(a.Samples, j)
		}
	}
}

func (a *Acc) MixFP(x uint64) { a.FP = core.Mix(a.FP, x) }

// Merge adds b into a.
func (a *Acc) Merge(b *Acc) {
	a.Runs += b.Runs
	a.Evals += b.Evals
	a.Steps += b.Steps
	a.Unusable += b.Unusable
	for k, v := range b.Counters {
		a.Counters[k] += v
	}
	for k, v := range b.Distinct {
		if v > a.Distinct[k] {
			a.Distinct[k] = v // the same workload explored twice counts once
		}
	}
	for _, s := range b.Samples {
		if len(a.Samples) < 4 {
			a.Samples = append(a.Samples, s)
		}
	}
	a.FP ^= b.FP
	a.Truncated = a.Truncated || b.Truncated
}

func (a *Acc) DistinctTotal() int {
	t := 0
	for _, v := range a.Distinct {
		t += v
	}
	return t
}

// SortedCounters returns the counters in a stable order (for evidence).
func (a *Acc) SortedCounters() []string {
	var ks []string
	for k := range a.Counters {
		ks = append(ks, k)
	}
	sort.Strings(ks)
	return ks
}

// Prop is one claimed property.
type Prop interface {
	ID() string
	Level() string // MANIFEST category
	Rule() string  // how cases are generated and what makes one non-trivial / distinct
	Assumptions() []string
	// Runs is the number of simulated workloads of a tier (before the budget multiplier).
	Runs(tier string) int
	// Run generates workload number i from runseed and explores its cases.
	Run(runseed uint64, tier string, acc *Acc) []*core.Violation
	// Check executes one explicit case. The error is non-nil when the case cannot
	// be decided (unusable baseline), which is never a violation.
	Check(c *core.Case) (*core.Violation, error)
	// Shrink proposes simpler variants of a failing case.
	Shrink(c *core.Case) []*core.Case
	// Probes lists counters that must be > 0 in a thorough run (reach measures).
	Probes() []string
}

var registry = map[string]Prop{}

func Register(p Prop)    { registry[p.ID()] = p }
func Get(id string) Prop { return registry[id] }
func IDs() []string {
	var out []string
	for k := range registry {
		out = append(out, k)
	}
	sort.Strings(out)
	return out
}

var allShapes = []string{"clash", "doc", "flat", "flatb", "kv", "nested", "nestedb", "opt4", "pair", "person", "rep3", "wide"}

// c13Shapes: all shapes; flat/flatb and nested/nestedb are twins (same column names, different physical types).
var c13Shapes = allShapes

// writerCandidates lifts ShrinkWriter to cases.
func writerCandidates(c *core.Case) []*core.Case {
	var out []*core.Case
	if c.W == nil {
		return nil
	}
	for _, w := range core.ShrinkWriter(c.W) {
		n := *c
		n.W = w
		out = append(out, &n)
	}
	return out
}

func sigClassAPI(api string) string {
	if len(api) >= 5 && api[:5] == "Write" {
		return "Write"
	}
	return api
}

// refWrite runs a writer history fault-free on a plain sink and reports
// whether it is usable as a baseline (no error, no panic, closed).
func refWrite(w *core.WriterSpec) (*core.WriteResult, bool) { return refWriteKind(w, "w") }

func sinkKindOr(k string) string {
	if k == "" {
		return "w"
	}
	return k
}

// refWriteKind is refWrite with the destination presented as the given sink kind.
func refWriteKind(w *core.WriterSpec, kind string) (*core.WriteResult, bool) {
	sink := &core.Sink{}
	res := core.ExecWriterKind(w, sink, kind)
	if res.Failed() != nil || !res.Closed {
		return res, false
	}
	return res, true
}

// leavesOf derives the columns of a shape (path, physical type, maximum
// definition/repetition level) from the Go struct definition, following the
// README's mapping: pointer = optional, slice = repeated, nested struct =
// required group, embedded struct = inlined, name from the parquet tag.
func leavesOf(t reflect.Type) []pq.Leaf {
	var out []pq.Leaf
	var walk func(t reflect.Type, path []string, def, rep int)
	walk = func(t reflect.Type, path []string, def, rep int) {
		for i := 0; i < t.NumField(); i++ {
			f := t.Field(i)
			if f.PkgPath != "" {
				continue
			}
			name := f.Tag.Get("parquet")
			if name == "-" {
				continue
			}
			ft := f.Type
			d, r := def, rep
			if ft.Kind() == reflect.Ptr {
				ft = ft.Elem()
				d++
			} else if ft.Kind() == reflect.Slice {
				ft = ft.Elem()
				d++
				r++
			}
			if ft.Kind() == reflect.Struct {
				if f.Anonymous {
					walk(ft, path, d, r)
				} else {
					if name == "" {
						name = f.Name
					}
					walk(ft, append(append([]string(nil), path...), name), d, r)
				}
				continue
			}
			if name == "" {
				name = f.Name
			}
			var pt int64
			switch ft.Kind() {
			case reflect.Bool:
				pt = 0
			case reflect.Int32, reflect.Uint32:
				pt = 1
			case reflect.Int64, reflect.Uint64:
				pt = 2
			case reflect.Float32:
				pt = 4
			case reflect.Float64:
				pt = 5
			case reflect.String:
				pt = 6
			default:
				panic("leavesOf: unsupported kind " + ft.Kind().String())
			}
			p := append(append([]string(nil), path...), name)
			out = append(out, pq.Leaf{Elems: p, Path: strings.Join(p, "."), Type: pt, MaxDef: d, MaxRep: r})
		}
	}
	walk(t, nil, 0, 0)
	return out
}

package props

import (
	"fmt"

	"verifsim/core"
)

// C09 - a failed write to the destination is always reported.
//
// Fault enumeration on the sink seam: for a generated writer history, every
// sink call k fails (err0/torn x transient/sticky); the API call during which
// the sink returned the error must return a non-nil error and nothing may panic.
type c09 struct{}

func init() { Register(c09{}) }

func (c09) ID() string    { return "C09" }
func (c09) Level() string { return "fault_enumeration" }
func (c09) Rule() string {
	return "workload = seeded writer history (shape x page size x codec x batch grammar) x destination kind {io.Writer only; io.Writer+StringWriter+ByteWriter+ReaderFrom+Flush+Sync; io.Writer+io.Seeker whose position is that of a file under a write buffer}; 2% of the workloads are of the giant-page class (one page body of 1.1-2.2 MiB); cases = for EVERY sink call k of the fault-free run: err0 transient (always) and torn / full (all bytes accepted, and an error) / err0-sticky / torn-sticky, each returning one of nine error values (plain, net.Error-like temporary+timeout, wrapped EAGAIN, io.ErrShortWrite, io.ErrUnexpectedEOF, os.ErrClosed, exactly io.EOF, a value of uncomparable type, an error whose Unwrap returns nil) (quick: seeded 1-in-4 of k, thorough: every k; 1% of thorough workloads are of the large class - pages of 100..1200 records - and sample these kinds 1-in-4). A case is non-trivial when its fault actually fired (the sink returned the injected error); distinct = distinct (workload digest, k, kind)."
}
func (c09) Assumptions() []string {
	return []string{
		"the destination honours the io.Writer contract (a short count comes with an error)",
		"the client stops issuing work after the first API call that fails, as a real caller would; the one later call that is made is Close after a failed Write (the `defer w.Close()` idiom), which must not panic whatever it returns",
		"one fault plan per run (single failing call, or failing from call k on)",
	}
}
func (c09) Probes() []string {
	return []string{"class/giant-page", "sink-kind/ws", "fired/New/magic", "fired/Write/page-header", "fired/Write/page-body", "fired/Close/footer", "fired/Close/footer-len", "fired/Close/tail-magic", "fired/kind/torn", "fired/kind/full", "fired/kind/err0-sticky", "fired/error-flavor/temporary", "fired/error-flavor/eagain", "codec/gzip", "codec/snappy", "codec/uncompressed", "sink-kind/w", "sink-kind/wx"}
}
func (c09) Runs(tier string) int {
	if tier == "thorough" {
		return 2500
	}
	return 400
}

func c09Opts(tier string) core.HistOpts {
	o := core.HistOpts{Shapes: allShapes, PageMin: 1, PageMax: 6, MinBatches: 0, MaxBatches: 4, MaxOps: 40, Profile: core.Benign, ManyPct: 1, ManyMax: 30, HugePct: 3, GiantPct: 20}
	if tier != "thorough" {
		o.ManyPct = 0 // a 30-row-group workload has ~1000 sink calls to enumerate: thorough only
	}
	if tier == "thorough" {
		o.MaxOps = 80
		o.BigPagePct = 5
		o.LargePct = 1
	}
	return o
}

// sinkRegions labels the sink calls of a fault-free run with the file region
// they write.
func sinkRegions(res *core.WriteResult) []string {
	out := make([]string, len(res.Sink.Calls))
	inWrite := 0
	inClose := 0
	lastAPI := ""
	for i, c := range res.Sink.Calls {
		if c.API != lastAPI {
			inWrite = 0
			lastAPI = c.API
		}
		switch sigClassAPI(c.API) {
		case "New":
			out[i] = "magic"
		case "Write":
			if inWrite%2 == 0 {
				out[i] = "page-header"
			} else {
				out[i] = "page-body"
			}
			inWrite++
		case "Close":
			out[i] = []string{"footer", "footer-len", "tail-magic"}[min(inClose, 2)]
			inClose++
		default:
			out[i] = "other"
		}
	}
	return out
}

func (p c09) Run(runseed uint64, tier string, acc *Acc) []*core.Violation {
	r := core.NewRng(runseed)
	w := core.GenHistory(r, c09Opts(tier))
	acc.Runs++
	sinkKind := []string{"w", "wx", "w", "wx", "ws"}[r.Intn(5)]
	ref, ok := refWriteKind(w, sinkKind)
	if !ok {
		acc.Unusable++
		return nil
	}
	acc.Inc("sink-kind/" + sinkKind)
	regions := sinkRegions(ref)
	n := len(ref.Sink.Calls)
	digest := core.HashBytes(append([]byte(w.HistoryString()), ref.Sink.Data...))
	acc.MixFP(digest)
	acc.Inc("codec/" + w.Codec)
	acc.Inc("shape/" + w.Shape)
	if w.Large {
		acc.Inc("class/large")
	}
	if w.Many {
		acc.Inc("class/many-row-groups")
	}
	if w.Giant {
		acc.Inc("class/giant-page")
	}
	if w.Huge {
		acc.Inc("class/huge-values")
	}
	var vios []*core.Violation
	nontrivial := 0
	for k := 1; k <= n; k++ {
		fl := func() string { return core.Flavors[r.Intn(len(core.Flavors))] } // what kind of error value the sink returns
		kinds := []core.SinkFault{{K: k, Kind: "err0", Flavor: fl()}}
		if (tier == "thorough" && !w.Large && w.Shape != "wide") || r.Chance(1, 4) {
			kinds = append(kinds,
				core.SinkFault{K: k, Kind: "torn", Arg: r.Intn(1 << 16), Flavor: fl()},
				core.SinkFault{K: k, Kind: "full", Flavor: fl()},
				core.SinkFault{K: k, Kind: "err0", Sticky: true, Flavor: fl()},
				core.SinkFault{K: k, Kind: "torn", Arg: r.Intn(1 << 16), Sticky: true, Flavor: fl()},
				// an outage that ends: 2..5 adjacent calls fail, then the destination accepts writes again
				core.SinkFault{K: k, Kind: "err0", Burst: r.Range(2, 5), Flavor: fl()})
		}
		for i := range kinds {
			c := &core.Case{Prop: "C09", Seed: runseed, W: w, SinkFault: &kinds[i], SinkKind: sinkKind}
			v, fired, steps := p.check(c)
			acc.Evals++
			acc.Steps += steps
			if fired {
				nontrivial++
				kind := kinds[i].Kind
				if kinds[i].Burst > 1 {
					acc.Inc("fired/kind/err0-burst")
				}
				if kinds[i].Sticky {
					kind += "-sticky"
				}
				acc.Inc("fired/kind/" + kind)
				acc.Inc("fired/error-flavor/" + kinds[i].Flavor)
				acc.Inc("fired/" + sigClassAPI(ref.Sink.Calls[k-1].API) + "/" + regions[k-1])
			}
			if k == n/2 && i == 0 {
				acc.Sample(c, 2)
			}
			if v != nil {
				v.Sig += "/" + regions[k-1]
				vios = append(vios, v)
				if len(vios) >= 3 {
					acc.Mark(digest, nontrivial)
					return vios
				}
			}
		}
	}
	acc.Mark(digest, nontrivial)
	return vios
}

func (p c09) check(c *core.Case) (v *core.Violation, fired bool, steps int) {
	sink := &core.Sink{Fault: c.SinkFault}
	res := core.ExecWriterKind(c.W, sink, sinkKindOr(c.SinkKind))
	steps = len(sink.Calls)
	fired = sink.Fired > 0
	for _, a := range res.APIs {
		if a.Panic != "" {
			return &core.Violation{Prop: "C09", Sig: "C09/panic/" + sigClassAPI(a.API),
				Detail: fmt.Sprintf("%s panicked: %s", a.API, a.Panic), Case: c}, fired, steps
		}
	}
	if !fired {
		return nil, false, steps
	}
	// the `defer w.Close()` idiom: a caller whose Write failed still closes the writer; that must not panic
	if called, pan := res.CloseAfterFailure(); called && pan != "" {
		return &core.Violation{Prop: "C09", Sig: "C09/panic/Close-after-failed-Write",
			Detail: fmt.Sprintf("sink call %d failed during %s, which returned its error; the deferred Close then panicked: %s", firstFailed(sink), sink.FirstFailAPI, pan), Case: c}, true, steps
	}
	api := sink.FirstFailAPI
	for _, a := range res.APIs {
		if a.API == api {
			if a.IsErr {
				return nil, true, steps
			}
			return &core.Violation{Prop: "C09", Sig: "C09/swallowed/" + sigClassAPI(api),
				Detail: fmt.Sprintf("sink call %d (%s) failed during %s, which returned a nil error", firstFailed(sink), c.SinkFault.Kind, api), Case: c}, true, steps
		}
	}
	// the error was returned during a call that has no error result (Add): it cannot be reported there
	return &core.Violation{Prop: "C09", Sig: "C09/swallowed/" + sigClassAPI(api),
		Detail: fmt.Sprintf("sink call failed during %s, which cannot report it", api), Case: c}, true, steps
}

func firstFailed(s *core.Sink) int {
	for i, c := range s.Calls {
		if c.Failed {
			return i + 1
		}
	}
	return 0
}

func (p c09) Check(c *core.Case) (*core.Violation, error) {
	if c.W == nil || c.SinkFault == nil {
		return nil, fmt.Errorf("C09 case needs writer and sink_fault")
	}
	v, _, _ := p.check(c)
	if v != nil {
		// add the region label from a fault-free run when one exists
		if ref, ok := refWriteKind(c.W, sinkKindOr(c.SinkKind)); ok {
			k := firstFailedIndex(c)
			regions := sinkRegions(ref)
			if k >= 1 && k <= len(regions) {
				v.Sig += "/" + regions[k-1]
			}
		}
	}
	return v, nil
}

func firstFailedIndex(c *core.Case) int { return c.SinkFault.K }

func (p c09) Shrink(c *core.Case) []*core.Case {
	var out []*core.Case
	// simplify the fault first
	f := *c.SinkFault
	if f.Burst > 1 {
		n := *c
		g := f
		g.Burst--
		n.SinkFault = &g
		out = append(out, &n)
	}
	if f.Sticky {
		n := *c
		g := f
		g.Sticky = false
		n.SinkFault = &g
		out = append(out, &n)
	}
	if c.SinkKind == "wx" || c.SinkKind == "ws" {
		n := *c
		n.SinkKind = "w"
		out = append(out, &n)
	}
	if f.Flavor != "" && f.Flavor != "plain" {
		n := *c
		g := f
		g.Flavor = ""
		n.SinkFault = &g
		out = append(out, &n)
	}
	if f.Kind == "torn" || f.Kind == "full" {
		n := *c
		g := f
		g.Kind = "err0"
		n.SinkFault = &g
		out = append(out, &n)
	}
	// shrink the history, keeping the fault at the same or an earlier call
	for _, cand := range writerCandidates(c) {
		out = append(out, cand)
		for _, k := range []int{f.K - 1, f.K - 2, f.K / 2, 1} {
			if k >= 1 && k < f.K {
				n := *cand
				g := f
				g.K = k
				n.SinkFault = &g
				out = append(out, &n)
			}
		}
	}
	for _, k := range []int{1, f.K / 2, f.K - 1} {
		if k >= 1 && k < f.K {
			n := *c
			g := f
			g.K = k
			n.SinkFault = &g
			out = append(out, &n)
		}
	}
	return out
}

func min(a, b int) int {
	if a < b {
		return a
	}
	return b
}

package props

import (
	"fmt"

	"verifsim/core"
	"verifsim/pq"
)

// C06 - every Add/Write/Close history gives one row group per non-empty batch.
//
// Model-based simulation of one writer task over the sim disk, fault-free,
// against the list-of-batches reference model; the bytes on the disk are
// checked by the independent framing parser and read back by the generated reader.
type c06 struct{}

func init() { Register(c06{}) }

func (c06) ID() string    { return "C06" }
func (c06) Level() string { return "exploration" }
func (c06) Rule() string {
	return "case = one Add/Write/Close history: the first run indices sweep every sequence over {Add,Write} of length 0..6 x page 1..3 (thorough: length 0..9 x page 1..4) x codec x shape, the rest are seeded (batch sizes from the grammar {0,1,page-1,page,page+1,2page,2page+1,3page+2,random}, empty Writes in every position, 0..2page records pending at Close) x page size 1..8 (sometimes 100) x codec x shape, executed fault-free on the sim disk (destination kinds: io.Writer only; +StringWriter/ByteWriter/ReaderFrom/Flush/Sync; +io.Seeker whose position is that of a file under a write buffer) and compared with the list-of-batches model (independent framing parse + read-back). Non-trivial = the history has an empty Write, or records pending at Close, or a batch >= page size (page chain), or >= 2 row groups. Distinct = distinct canonical strings shape|page|codec|A^n W ... C combined with the digest of the record values."
}
func (c06) Assumptions() []string {
	return []string{
		"record values are benign (small ints, short ASCII strings, finite floats) so that value-space defects (C01/C03) do not surface here",
		"the independent parser pq/ (own thrift-compact and hybrid-RLE decoders) is correct; golang/snappy and compress/gzip decoders are trusted",
		"sink and source behave ideally in this check (faults are C08-C11)",
	}
}
func (c06) Probes() []string {
	return []string{"class/giant-page", "sink-kind/ws", "probe/empty-write-first", "probe/empty-write-between", "probe/empty-write-consecutive", "probe/exact-multiple-then-empty", "probe/pending-with-batches", "probe/pending-no-batches", "probe/chain>=3", "probe/no-batch-at-all", "probe/row-groups>=3", "sweep/short-histories", "class/large", "class/many-row-groups"}
}
func (c06) Runs(tier string) int {
	if tier == "thorough" {
		return 2000000
	}
	return 120000
}

func c06Opts(tier string) core.HistOpts {
	o := core.HistOpts{Shapes: allShapes, PageMin: 1, PageMax: 8, BigPagePct: 3, MinBatches: 0, MaxBatches: 5, MaxOps: 40,
		EmptyWrites: true, PendingClose: true, Profile: core.Benign, LargePct: 1, ManyPct: 1, ManyMax: 80, HugePct: 1, BoundaryPct: 2, GiantPct: 1, MillionPer100k: 8}
	if tier == "thorough" {
		o.MaxOps = 120
		o.MaxBatches = 6
		o.ManyMax = 300
	}
	return o
}

// The first sweepRuns run indices are a systematic sweep of all short
// histories (every sequence over {Add, Write} of length 0..6, then Close) x
// page size 1..3 x codec x shape, with seeded record values: most history
// defects need three or fewer operations, so the sampled search is seeded with
// all of them. Everything after is drawn from the batch grammar.
//
// Quick: length 0..6, page size 1..3. Thorough: length 0..9, page size 1..4.
func sweepBounds(tier string) (maxLen, pages int) {
	if tier == "thorough" {
		return 9, 4
	}
	return 6, 3
}

func sweepRuns(tier string) int {
	l, pg := sweepBounds(tier)
	return ((1 << (l + 1)) - 1) * pg * 3 * len(allShapes)
}

func sweepHistory(idx int, r *core.Rng, tier string) *core.WriterSpec {
	sweepLen, pages := sweepBounds(tier)
	nh := (1 << (sweepLen + 1)) - 1
	h := idx % nh
	idx /= nh
	w := &core.WriterSpec{Page: 1 + idx%pages}
	idx /= pages
	w.Codec = core.Codecs[idx%3]
	idx /= 3
	w.Shape = allShapes[idx%len(allShapes)]
	// h -> (length, bits)
	l := 0
	for h >= 1<<uint(l) {
		h -= 1 << uint(l)
		l++
	}
	sh := core.GetShape(w.Shape)
	for i := 0; i < l; i++ {
		if h>>uint(i)&1 == 1 {
			w.Ops = append(w.Ops, core.WriteOp())
		} else {
			w.Ops = append(w.Ops, core.AddOp(core.GenRec(r, sh.Type, core.Benign)))
		}
	}
	w.Ops = append(w.Ops, core.CloseOp())
	return w
}

func (p c06) Run(runseed uint64, tier string, acc *Acc) []*core.Violation {
	r := core.NewRng(runseed)
	var w *core.WriterSpec
	if acc.Index < sweepRuns(tier) {
		w = sweepHistory(acc.Index, r, tier)
		acc.Inc("sweep/short-histories")
	} else {
		w = core.GenHistory(r, c06Opts(tier))
	}
	acc.Runs++
	c := &core.Case{Prop: "C06", Seed: runseed, W: w, SinkKind: []string{"w", "wx", "w", "wx", "ws"}[r.Intn(5)], SourceKind: []string{"rs", "rsb", "rsx", "rsf"}[r.Intn(4)]}
	v, steps, digest := p.check(c)
	acc.Evals++
	acc.Steps += steps
	acc.MixFP(digest)
	st := w.Stats()
	nontrivial := st.EmptyWrites > 0 || st.PendingAtClose > 0 || st.BatchGEPage || st.NonEmptyBatches >= 2
	if nontrivial {
		acc.Mark(digest, 1)
	}
	probe := func(b bool, name string) {
		if b {
			acc.Inc("probe/" + name)
		}
	}
	probe(st.EmptyFirst, "empty-write-first")
	probe(st.EmptyBetween, "empty-write-between")
	probe(st.EmptyConsecutive, "empty-write-consecutive")
	probe(st.ExactThenEmpty, "exact-multiple-then-empty")
	probe(st.PendingWithBatches, "pending-with-batches")
	probe(st.PendingNoBatches, "pending-no-batches")
	probe(st.MaxChain >= 3, "chain>=3")
	probe(st.NoBatchAtAll, "no-batch-at-all")
	probe(st.NonEmptyBatches >= 3, "row-groups>=3")
	acc.Inc("codec/" + w.Codec)
	acc.Inc("sink-kind/" + c.SinkKind)
	acc.Inc("shape/" + w.Shape)
	if w.Large {
		acc.Inc("class/large")
	}
	if w.Many {
		acc.Inc("class/many-row-groups")
	}
	if w.Giant {
		acc.Inc("class/giant-page")
	}
	if w.Million {
		acc.Inc("class/million-rows")
	}
	if w.Huge {
		acc.Inc("class/huge-values")
	}
	if w.Boundary {
		acc.Inc("class/boundary-sizes")
	}
	if acc.Runs%5000 == 1 && !w.Large && !w.Huge {
		acc.Sample(c, 3)
	}
	if v != nil {
		return []*core.Violation{v}
	}
	return nil
}

func (p c06) check(c *core.Case) (*core.Violation, int, uint64) {
	sink := &core.Sink{}
	res := core.ExecWriterKind(c.W, sink, sinkKindOr(c.SinkKind))
	steps := len(sink.Calls)
	digest := core.HashBytes(append([]byte(c.W.HistoryString()), sink.Data...))
	mk := func(sig, detail string) (*core.Violation, int, uint64) {
		return &core.Violation{Prop: "C06", Sig: "C06/" + sig, Detail: detail + " [history " + c.W.HistoryString() + "]", Case: c}, steps, digest
	}
	// 3. no API call returned an error or panicked
	if f := res.Failed(); f != nil {
		if f.Panic != "" {
			return mk("panic/"+sigClassAPI(f.API), fmt.Sprintf("%s panicked: %s", f.API, f.Panic))
		}
		return mk("api-error/"+sigClassAPI(f.API), fmt.Sprintf("%s returned %q on an ideal sink", f.API, f.Err))
	}
	if !res.Closed {
		return nil, steps, digest // history without Close: nothing to check
	}
	// model
	var want []int64
	for _, b := range res.Batches {
		want = append(want, int64(len(b)))
	}
	wantRecs := core.Flatten(res.Batches)
	// 1. independent framing parse
	f, pr := pq.Parse(sink.Data, leavesOf(core.GetShape(c.W.Shape).Type))
	if pr != nil {
		return mk("file-invalid/"+pr.Class, pr.Detail)
	}
	if len(f.RowGroups) != len(want) {
		return mk("row-groups", fmt.Sprintf("file has %d row groups, the history has %d non-empty batches %v", len(f.RowGroups), len(want), want))
	}
	for i := range want {
		if f.RowGroups[i].NumRows != want[i] {
			return mk("row-group-rows", fmt.Sprintf("row group %d has num_rows %d, batch %d has %d records", i, f.RowGroups[i].NumRows, i, want[i]))
		}
	}
	if f.NumRows != int64(len(wantRecs)) {
		return mk("footer-num-rows", fmt.Sprintf("FileMetaData.num_rows is %d, the written batches hold %d records", f.NumRows, len(wantRecs)))
	}
	// 2. read-back through the generated reader over an ideal source
	src := core.NewSource(sink.Data, nil, nil)
	src.MaxCalls = 200000 + 400*len(sink.Data)
	rr := core.ExecReader(c.W.Shape, src.AsReadSeeker(kindOr(c.SourceKind)), 2*len(wantRecs)+16, nil)
	steps += src.Stats.Calls
	switch {
	case rr.Panic != "":
		return mk("readback-panic", "reader panicked: "+rr.Panic)
	case rr.Hang:
		return mk("readback-hang", "reader did not finish within the step cap")
	case rr.CtorFail:
		return mk("readback-error", "NewParquetReader: "+rr.CtorErr)
	case rr.Failed:
		return mk("readback-error", "Error(): "+rr.FinalErr)
	case rr.Runaway:
		return mk("readback-rows", fmt.Sprintf("reader delivered more than %d rows for %d records", 2*len(wantRecs)+16, len(wantRecs)))
	}
	if rr.Rows != int64(len(wantRecs)) {
		return mk("readback-rows", fmt.Sprintf("Rows() is %d, expected %d", rr.Rows, len(wantRecs)))
	}
	if ok, why := core.EqualRecs(rr.Recs, wantRecs); !ok {
		return mk("readback-records", why)
	}
	return nil, steps, digest
}

func (p c06) Check(c *core.Case) (*core.Violation, error) {
	if c.W == nil {
		return nil, fmt.Errorf("C06 case needs a writer")
	}
	v, _, _ := p.check(c)
	return v, nil
}

func (p c06) Shrink(c *core.Case) []*core.Case { return writerCandidates(c) }

package props

import (
	"bufio"
	"bytes"
	"encoding/json"
	"fmt"
	"os"
	"os/exec"
	"strings"
	"syscall"

	"verifsim/core"
)

// Sandboxed reads for C11. A prefix that ends in "PAR1" gets past the footer
// check (the only prefixes that do, since the reader verifies the trailing
// magic); what follows is page decoding over bytes that are not what the
// footer describes. On such input the library can ask the allocator for
// absurd amounts of memory, which Go turns into an unrecoverable fatal error -
// so these reads run in a child process with an address-space limit, and a
// child that dies is an observed outcome ("crash"), not harness trouble.

// RiskyReq is the request a sandbox child reads from stdin.
type RiskyReq struct {
	Shape string   `json:"shape"`
	Data  []byte   `json:"data"`
	Cuts  []int    `json:"cuts"`
	Kinds []string `json:"kinds"`
	Limit int      `json:"limit"`
	Name  string   `json:"name"`
}

// RiskyRes is one line of the child's output.
type RiskyRes struct {
	Cut      int    `json:"cut"`
	Reported bool   `json:"reported"`
	Rows     int    `json:"rows"`
	Panic    string `json:"panic,omitempty"`
	PanicAPI string `json:"panic_api,omitempty"`
	Hang     bool   `json:"hang,omitempty"`
	Runaway  bool   `json:"runaway,omitempty"`
	Crash    string `json:"crash,omitempty"` // filled by the parent when the child died on this cut
	Steps    int    `json:"steps"`
}

// RunRiskyChild is the body of `simcheck readprefix`.
func RunRiskyChild() int {
	// 6 GiB of address space is far more than any legitimate read of these files needs
	lim := syscall.Rlimit{Cur: 6 << 30, Max: 6 << 30}
	syscall.Setrlimit(syscall.RLIMIT_AS, &lim)
	var req RiskyReq
	if err := json.NewDecoder(os.Stdin).Decode(&req); err != nil {
		fmt.Fprintln(os.Stderr, "readprefix:", err)
		return 2
	}
	out := bufio.NewWriter(os.Stdout)
	for i, cut := range req.Cuts {
		// announce the cut first: if the process dies, the parent knows where
		fmt.Fprintf(out, "START %d\n", cut)
		out.Flush()
		src := core.NewSource(req.Data[:cut:cut], nil, nil)
		src.MaxCalls = 400000 + 400*len(req.Data)
		src.FileName = req.Name
		rr := core.ExecReader(req.Shape, src.AsReadSeeker(req.Kinds[i]), req.Limit, nil)
		res := RiskyRes{Cut: cut, Reported: rr.Reported(), Rows: len(rr.Recs), Panic: rr.Panic, PanicAPI: rr.PanicAPI, Hang: rr.Hang, Runaway: rr.Runaway, Steps: src.Stats.Calls}
		b, _ := json.Marshal(res)
		out.Write(b)
		out.WriteByte('\n')
		out.Flush()
	}
	return 0
}

// riskyRead runs the given cuts of a file in sandbox children and returns one
// result per cut. A child that dies is restarted for the remaining cuts.
func riskyRead(shape string, data []byte, cuts []int, kinds []string, limit int, name string) (map[int]RiskyRes, error) {
	self, err := os.Executable()
	if err != nil {
		return nil, err
	}
	out := map[int]RiskyRes{}
	for len(cuts) > 0 {
		req := RiskyReq{Shape: shape, Data: data, Cuts: cuts, Kinds: kinds, Limit: limit, Name: name}
		in, _ := json.Marshal(&req)
		cmd := exec.Command(self, "readprefix")
		cmd.Stdin = bytes.NewReader(in)
		cmd.Env = append(os.Environ(), "GOMAXPROCS=1")
		var stderr bytes.Buffer
		cmd.Stderr = &stderr
		stdout, runErr := cmd.Output()
		started := -1
		done := 0
		for _, line := range strings.Split(string(stdout), "\n") {
			if strings.HasPrefix(line, "START ") {
				fmt.Sscanf(line, "START %d", &started)
				continue
			}
			if line == "" {
				continue
			}
			var r RiskyRes
			if json.Unmarshal([]byte(line), &r) == nil {
				out[r.Cut] = r
				done++
				started = -1
			}
		}
		if runErr == nil && done == len(cuts) {
			return out, nil
		}
		if started < 0 || done >= len(cuts) || cuts[done] != started {
			return nil, fmt.Errorf("sandbox child failed outside a read: %v: %s", runErr, firstLine(stderr.String()))
		}
		// the child died while reading cuts[done]
		out[started] = RiskyRes{Cut: started, Crash: firstLine(stderr.String())}
		cuts = cuts[done+1:]
		kinds = kinds[done+1:]
	}
	return out, nil
}

func firstLine(s string) string {
	for _, l := range strings.Split(s, "\n") {
		l = strings.TrimSpace(l)
		if l != "" {
			if len(l) > 200 {
				l = l[:200]
			}
			return l
		}
	}
	return ""
}

// risky reports whether the prefix of length cut ends in the magic (and is
// more than the leading magic).
func riskyCut(data []byte, cut int) bool {
	return cut >= 12 && string(data[cut-4:cut]) == "PAR1"
}

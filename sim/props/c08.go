package props

import (
	"fmt"

	"verifsim/core"
)

// C08 - reading does not depend on how the source fragments its reads.
//
// Fault injection on the source seam: the sim source shortens reads (always
// within the io.Reader contract). Reference = the same reader on the same
// bytes through a source that always fills the buffer.
type c08 struct{}

func init() { Register(c08{}) }

func (c08) ID() string    { return "C08" }
func (c08) Level() string { return "fault_enumeration" }
func (c08) Rule() string {
	return "workload = valid file from a seeded fault-free writer run (strings up to 300 bytes in half of the files, page size 1..50; 5 per mille giant-page files with one page body of 1.1-2.2 MiB, sampled like the large class; 1 in 300 with a footer beyond 64 KiB; one file in four of shapes flat, kv, nested is read by the code generated for a struct with the same columns in another field order). Cases per file: fixed chunk size c for EVERY c in 1..(largest single read the reader requests on that file) [quick: every c <= 48 and a seeded sample above; sizes above 512 and the 1-2% files of the large class (pages of 100..1200 records) are sampled in both tiers], seeded random fragmentations, random-small (1..3 bytes), len-1, one-byte-after-seek; one fragmentation in three also scribbles over the unused rest of the caller's buffer, as the io.Reader contract allows; each x eof_with_data {off,on} x source kind {ReadSeeker; +ByteReader; +ByteReader+ReaderAt+WriterTo; file-like: also Name and Stat} (thorough: all eight combinations per c; quick: one seeded combination per c). Non-trivial = at least one Read really returned fewer bytes than requested; distinct = distinct (file digest, policy, arg, eof flag, source kind)."
}
func (c08) Assumptions() []string {
	return []string{
		"the source honours the io.Reader contract: 1 <= n <= len(p) while data remains; (0, nil) is never returned for len(p) > 0",
		"the reference is the same reader over an ideal source of the same bytes; files whose reference read fails or disagrees with the model are skipped and counted (baseline_unusable)",
	}
}
func (c08) Probes() []string {
	return []string{"class/giant-page", "reader/permuted-struct", "policy/fixed", "policy/random", "policy/small", "policy/lenm1", "policy/onefull", "eof_with_data/fired", "kind/rsb", "kind/rs", "kind/rsx", "codec/gzip", "codec/snappy", "codec/uncompressed", "shortened/ge100perrun", "class/large"}
}
func (c08) Runs(tier string) int {
	if tier == "thorough" {
		return 5000
	}
	return 2000
}

func (p c08) Run(runseed uint64, tier string, acc *Acc) []*core.Violation {
	r := core.NewRng(runseed)
	fo := fileOpts(tier, 1, r.Chance(1, 2))
	if r.Chance(1, 300) {
		// a footer beyond 64 KiB: hundreds of row groups of a wide shape
		fo.Shapes = []string{"flat", "flatb", "nested", "nestedb"}
		fo.ManyPct, fo.ManyMax = 100, 260
		fo.HugePct = 0
		acc.Inc("class/huge-footer")
	}
	fo.LargePct = 1
	fo.GiantPct = 5
	fo.MillionPer100k = 500
	if tier == "thorough" {
		fo.LargePct = 2
	}
	f, ok := genFile(r, fo)
	acc.Runs++
	if !ok {
		acc.Unusable++
		return nil
	}
	limit := 2*len(f.Want) + 16
	base, bsrc := baselineRead(f.W.ReadShape(), f.Data, "rs", limit)
	baseB, _ := baselineRead(f.W.ReadShape(), f.Data, "rsb", limit)
	baseX, _ := baselineRead(f.W.ReadShape(), f.Data, "rsx", limit)
	baseF, _ := baselineRead(f.W.ReadShape(), f.Data, "rsf", limit)
	if !usableBaseline(base, f.Want) || !usableBaseline(baseB, f.Want) || !usableBaseline(baseX, f.Want) || !usableBaseline(baseF, f.Want) {
		acc.Unusable++
		return nil
	}
	acc.MixFP(f.Digest)
	acc.Inc("codec/" + f.W.Codec)
	acc.Inc("shape/" + f.W.Shape)
	if f.W.ReadAs != "" {
		acc.Inc("reader/permuted-struct")
	}
	maxReq := bsrc.Stats.MaxReadReq
	var frags []core.Frag
	kinds := []string{"rs", "rsb", "rsx", "rsf"}
	addAll := func(fr core.Frag) {
		if tier == "thorough" {
			for _, e := range []bool{false, true} {
				g := fr
				g.EOFWithData = e
				g.Scribble = r.Chance(1, 3)
				frags = append(frags, g)
			}
		} else {
			fr.EOFWithData = r.Chance(1, 2)
			fr.Scribble = r.Chance(1, 3)
			frags = append(frags, fr)
		}
	}
	if f.W.Large {
		acc.Inc("class/large")
	}
	if f.W.Many {
		acc.Inc("class/many-row-groups")
	}
	if f.W.Giant {
		acc.Inc("class/giant-page")
	}
	if f.W.Million {
		acc.Inc("class/million-rows")
	}
	if f.W.Huge {
		acc.Inc("class/huge-values")
	}
	for c := 1; c <= maxReq; c++ {
		switch {
		case f.W.Million: // one pass over half a million rows costs ~0.1 s: a handful of chunk sizes
			if c == 1 || c == 7 || c == 1000 || c == 4096 || c == 65536 {
				addAll(core.Frag{Policy: "fixed", Arg: c})
			}
		case c > 512: // only large files request this much at once: seeded sample of about 64 sizes
			if r.Intn(maxReq) < 64 {
				addAll(core.Frag{Policy: "fixed", Arg: c})
			}
		case f.W.Large || f.W.Giant || (f.W.Many && len(f.Data) > 100000): // a large file costs ~30 ms per read: every c <= 16 and a sample
			if c <= 16 || r.Chance(1, 16) {
				addAll(core.Frag{Policy: "fixed", Arg: c})
			}
		case tier == "thorough" || c <= 48 || r.Chance(1, 10):
			addAll(core.Frag{Policy: "fixed", Arg: c})
		}
	}
	nr := 6
	if tier == "thorough" {
		nr = 24
	}
	if f.W.Million {
		nr = 2
	}
	for i := 0; i < nr; i++ {
		addAll(core.Frag{Policy: "random", Seed: r.Uint64()})
	}
	addAll(core.Frag{Policy: "small", Seed: r.Uint64()})
	addAll(core.Frag{Policy: "lenm1"})
	addAll(core.Frag{Policy: "onefull"})
	var vios []*core.Violation
	nontrivial := 0
	shortened := 0
	for i := range frags {
		var ks []string
		if tier == "thorough" {
			ks = kinds
		} else {
			ks = []string{kinds[r.Intn(4)]}
		}
		for _, k := range ks {
			c := &core.Case{Prop: "C08", Seed: runseed, W: f.W, SourceKind: k, Frag: &frags[i]}
			v, st := p.check(c, f, base)
			acc.Evals++
			acc.Steps += st.Calls
			if st.Shortened > 0 {
				nontrivial++
				shortened += st.Shortened
				acc.Inc("policy/" + frags[i].Policy)
				acc.Inc("kind/" + k)
			}
			if st.EOFData > 0 {
				acc.Inc("eof_with_data/fired")
			}
			if i == len(frags)-3 {
				acc.Sample(c, 2)
			}
			if v != nil {
				vios = append(vios, v)
				if len(vios) >= 3 {
					acc.Mark(f.Digest, nontrivial)
					return vios
				}
			}
		}
	}
	acc.AddN("shortened/reads", shortened)
	if shortened >= 100 {
		acc.Inc("shortened/ge100perrun")
	}
	acc.Mark(f.Digest, nontrivial)
	return vios
}

func (p c08) check(c *core.Case, f *fileWL, base *core.ReadResult) (*core.Violation, core.SrcStats) {
	src := core.NewSource(f.Data, c.Frag, nil)
	src.MaxCalls = 400000 + 400*len(f.Data)
	limit := 2*len(base.Recs) + 16
	rr := core.ExecReader(f.W.ReadShape(), src.AsReadSeeker(kindOr(c.SourceKind)), limit, nil)
	mk := func(sig, detail string) (*core.Violation, core.SrcStats) {
		fr := c.Frag
		return &core.Violation{Prop: "C08", Sig: "C08/" + sig + "/" + f.W.Codec,
			Detail: fmt.Sprintf("%s [fragmentation %s arg=%d eof_with_data=%v source=%s; %d reads shortened; file %s, %d bytes]", detail, fr.Policy, fr.Arg, fr.EOFWithData, kindOr(c.SourceKind), src.Stats.Shortened, f.W.HistoryString(), len(f.Data)), Case: c}, src.Stats
	}
	switch {
	case rr.Panic != "":
		return mk("panic", "reader panicked in "+rr.PanicAPI+": "+rr.Panic)
	case rr.Hang:
		return mk("hang", "reader did not finish within the step cap")
	case rr.CtorFail:
		return mk("error", "NewParquetReader failed: "+rr.CtorErr)
	case rr.Failed:
		return mk("error", fmt.Sprintf("Error() = %q after %d rows", rr.FinalErr, len(rr.Recs)))
	case rr.Runaway:
		return mk("rows-differ", "reader delivered more rows than the file holds")
	}
	if rr.Rows != base.Rows {
		return mk("rows-differ", fmt.Sprintf("Rows() = %d, reference %d", rr.Rows, base.Rows))
	}
	if ok, why := core.EqualRecs(rr.Recs, base.Recs); !ok {
		return mk("rows-differ", why)
	}
	return nil, src.Stats
}

func (p c08) Check(c *core.Case) (*core.Violation, error) {
	if c.Frag == nil {
		return nil, fmt.Errorf("C08 case needs frag")
	}
	f, err := fileOfCase(c)
	if err != nil {
		return nil, err
	}
	base, _ := baselineRead(f.W.ReadShape(), f.Data, kindOr(c.SourceKind), 2*len(f.Want)+16)
	if !usableBaseline(base, f.Want) {
		return nil, fmt.Errorf("fault-free read of the case's file is not usable as a reference")
	}
	v, _ := p.check(c, f, base)
	return v, nil
}

func (p c08) Shrink(c *core.Case) []*core.Case {
	var out []*core.Case
	fr := *c.Frag
	if fr.Scribble {
		n := *c
		g := fr
		g.Scribble = false
		n.Frag = &g
		out = append(out, &n)
	}
	if fr.EOFWithData {
		n := *c
		g := fr
		g.EOFWithData = false
		n.Frag = &g
		out = append(out, &n)
	}
	if c.SourceKind != "" && c.SourceKind != "rs" {
		n := *c
		n.SourceKind = "rs"
		out = append(out, &n)
	}
	if fr.Policy != "fixed" {
		for _, a := range []int{1, 2, 3, 7} {
			n := *c
			n.Frag = &core.Frag{Policy: "fixed", Arg: a}
			out = append(out, &n)
		}
	}
	out = append(out, writerCandidates(c)...)
	return out
}

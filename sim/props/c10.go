package props

import (
	"fmt"

	"verifsim/core"
)

// C10 - a failed read or seek never turns into silently wrong rows.
//
// Fault enumeration on the source seam: the k-th Read/ReadByte/Seek of the
// source fails, for every k of the fault-free run.
type c10 struct{}

func init() { Register(c10{}) }

func (c10) ID() string    { return "C10" }
func (c10) Level() string { return "fault_enumeration" }
func (c10) Rule() string {
	return "workload = valid file from a seeded fault-free writer run (>= 2 row groups in half of the files) x source kind {ReadSeeker; +ByteReader; +ByteReader+ReaderAt+WriterTo}. Cases per file: for EVERY source call k (Read, ReadByte and Seek share one counter) of the fault-free read: err0 transient (always); partial (n>0 bytes + error), full (all requested bytes + error), early_eof ((0, io.EOF) before the end), and the sticky variants (fail from call k on) at every k whose read requests 256 bytes or more and a seeded 1-in-8 sample of the other k in quick, at every k in thorough; a Seek call fails with an error whatever the kind. One file in 200 has a footer beyond 64 KiB (200-260 row groups of a 16-column shape; about 400 sampled positions), 1% are giant-page files (one page body of 1.1-2.2 MiB), and one file in four of shapes flat, kv, nested is read by the code generated for a struct with the same columns in another field order (its reader may seek between chunks). Thorough adds an arm where the faulted read is also randomly fragmented, and 1% files of the large class (pages of 100..1200 records) with a seeded sample of about 400 call positions. Non-trivial = the fault actually fired (the source returned it); distinct = distinct (file digest, source kind, k, kind)."
}
func (c10) Assumptions() []string {
	return []string{
		"the client uses the documented loop: NewParquetReader; for r.Next() { r.Scan(&x) }; r.Error(); Next is not called again after it returned false; in half of the cases the client also calls Error() before the loop and after every row",
		"a source that lies (wrong bytes, wrong offset from Seek without an error) is outside the property and is not simulated",
		"reference rows = fault-free read of the same file by the same reader; files whose reference is unusable are skipped and counted",
		"a reader that neither reports the failure nor terminates within 20x the reference's source calls plus four calls per byte of the file counts as not reporting it (hang)",
	}
}
func (c10) Probes() []string {
	return []string{"class/huge-footer", "class/giant-page", "reader/permuted-struct", "fired/New/read", "fired/New/seek", "fired/Next/read", "fired/kind/partial", "fired/kind/early_eof", "fired/kind/err0-sticky", "fired/rsb/readbyte", "outcome/ctor-error", "outcome/error-after-rows", "codec/gzip", "codec/snappy", "codec/uncompressed"}
}
func (c10) Runs(tier string) int {
	if tier == "thorough" {
		return 4000
	}
	return 640
}

func (p c10) Run(runseed uint64, tier string, acc *Acc) []*core.Violation {
	r := core.NewRng(runseed)
	minB := 1
	if r.Chance(1, 2) {
		minB = 2
	}
	o := fileOpts(tier, minB, r.Chance(1, 4))
	o.MaxOps = 16
	if tier == "thorough" {
		o.MaxOps = 28
		o.LargePct = 1
	}
	if tier != "thorough" {
		o.ManyPct = 0
	}
	if r.Chance(1, 200) {
		// a footer beyond 64 KiB: hundreds of row groups of a 16-column shape (call positions are sampled)
		o.Shapes = []string{"flat", "flatb"}
		o.ManyPct, o.ManyMax = 100, 260
		o.LargePct = 0
		acc.Inc("class/huge-footer")
	}
	o.GiantPct = 10 // one page body beyond 1 MiB: few source calls as well
	o.HugePct = 6 // huge-value files are short histories: few source calls, cheap to enumerate
	f, ok := genFile(r, o)
	acc.Runs++
	if !ok {
		acc.Unusable++
		return nil
	}
	kind := []string{"rs", "rsb", "rsx", "rsf"}[r.Intn(4)]
	limit := 2*len(f.Want) + 16
	base, bsrc := baselineRead(f.W.ReadShape(), f.Data, kind, limit)
	if !usableBaseline(base, f.Want) {
		acc.Unusable++
		return nil
	}
	acc.MixFP(f.Digest)
	acc.Inc("codec/" + f.W.Codec)
	acc.Inc("shape/" + f.W.Shape)
	if f.W.ReadAs != "" {
		acc.Inc("reader/permuted-struct")
	}
	acc.Inc("kind/" + kind)
	m := bsrc.Stats.Calls
	var vios []*core.Violation
	nontrivial := 0
	fragArm := tier == "thorough" && r.Chance(1, 4)
	if f.W.Large {
		acc.Inc("class/large")
	}
	if f.W.Many {
		acc.Inc("class/many-row-groups")
	}
	if f.W.Giant {
		acc.Inc("class/giant-page")
	}
	if f.W.Huge {
		acc.Inc("class/huge-values")
	}
	for k := 1; k <= m; k++ {
		if (f.W.Large || f.W.Many || f.W.Shape == "wide") && r.Intn(m) >= 400 {
			continue // large and many-row-group classes: a seeded sample of about 400 call positions
		}
		fl := func() string { return core.Flavors[r.Intn(len(core.Flavors))] }
		faults := []core.SrcFault{{K: k, Kind: "err0", Flavor: fl()}}
		bigRead := k-1 < len(bsrc.Req) && bsrc.Req[k-1] >= 256 // page bodies and other bulk reads: always all kinds
		if tier == "thorough" || bigRead || r.Chance(1, 8) {
			faults = append(faults,
				core.SrcFault{K: k, Kind: "partial", Arg: r.Intn(1 << 16), Flavor: fl()},
				core.SrcFault{K: k, Kind: "full", Flavor: fl()},
				core.SrcFault{K: k, Kind: "early_eof"},
				core.SrcFault{K: k, Kind: "err0", Sticky: true, Flavor: fl()},
				core.SrcFault{K: k, Kind: "early_eof", Sticky: true},
				// an outage that ends: 2..5 adjacent calls fail, then the source is fine again
				core.SrcFault{K: k, Kind: "err0", Burst: r.Range(2, 5), Flavor: fl()})
		}
		for i := range faults {
			c := &core.Case{Prop: "C10", Seed: runseed, W: f.W, SourceKind: kind, SrcFault: &faults[i]}
			if (k+i)%2 == 1 {
				c.ReadMode = "errcheck" // a client that also looks at Error() before the loop and after every row
			}
			if fragArm {
				c.Frag = &core.Frag{Policy: "random", Seed: r.Uint64()}
			}
			v, src, rr := p.check(c, f, base, m)
			acc.Evals++
			acc.Steps += src.Stats.Calls
			if src.Stats.Fired > 0 {
				nontrivial++
				fk := faults[i].Kind
				if faults[i].Sticky {
					fk += "-sticky"
				}
				if faults[i].Burst > 1 {
					fk += "-burst"
				}
				acc.Inc("fired/kind/" + fk)
				if faults[i].Flavor != "" {
					acc.Inc("fired/error-flavor/" + faults[i].Flavor)
				}
				acc.Inc("fired/" + src.FiredAPI + "/" + src.Stats.FiredOp)
				if kind == "rsb" && src.Stats.FiredOp == "readbyte" {
					acc.Inc("fired/rsb/readbyte")
				}
				switch {
				case rr.CtorFail:
					acc.Inc("outcome/ctor-error")
				case rr.Failed && len(rr.Recs) > 0:
					acc.Inc("outcome/error-after-rows")
				case rr.Failed:
					acc.Inc("outcome/error-no-rows")
				default:
					acc.Inc("outcome/recovered-correct-rows")
				}
			}
			if k == m/2 && i == 0 {
				acc.Sample(c, 2)
			}
			if v != nil {
				vios = append(vios, v)
				if len(vios) >= 3 {
					acc.Mark(f.Digest, nontrivial)
					return vios
				}
			}
		}
	}
	acc.Mark(f.Digest, nontrivial)
	return vios
}

func (p c10) check(c *core.Case, f *fileWL, base *core.ReadResult, baseCalls int) (*core.Violation, *core.Source, *core.ReadResult) {
	src := core.NewSource(f.Data, c.Frag, c.SrcFault)
	// a reader that went astray may legitimately crawl through the rest of the file one byte per call
	// before it gives up; only an unbounded loop is a hang
	src.MaxCalls = 20*baseCalls + 100000 + 4*len(f.Data)
	if c.Frag != nil {
		src.MaxCalls = 400000 + 400*len(f.Data)
	}
	limit := 2*len(base.Recs) + 16
	rr := core.ExecReaderMode(f.W.ReadShape(), src.AsReadSeeker(kindOr(c.SourceKind)), limit, func(a string) { src.CurAPI = a }, c.ReadMode)
	phase := src.FiredAPI + "/" + src.Stats.FiredOp
	if src.Stats.Fired == 0 {
		phase = "nofault"
	}
	mk := func(sig, detail string) (*core.Violation, *core.Source, *core.ReadResult) {
		ft := c.SrcFault
		return &core.Violation{Prop: "C10", Sig: "C10/" + sig + "/" + phase,
			Detail: fmt.Sprintf("%s [source call %d (%s) failed with %s sticky=%v burst=%d during %s; source=%s; file %s, %d bytes]", detail, src.Stats.FirstFired, src.Stats.FiredOp, ft.Kind, ft.Sticky, ft.Burst, src.FiredAPI, kindOr(c.SourceKind), f.W.HistoryString(), len(f.Data)), Case: c}, src, rr
	}
	switch {
	case rr.Panic != "":
		return mk("panic", "reader panicked in "+rr.PanicAPI+": "+rr.Panic)
	case rr.Hang:
		return mk("hang", "reader neither reported the failure nor finished within the step cap")
	}
	if rr.Reported() {
		return nil, src, rr // (a) or (b): the failure was reported
	}
	// (c) no error reported: every delivered row must be right and none missing
	if rr.Runaway {
		return mk("silent-wrong-rows", "no error reported and more rows delivered than the file holds")
	}
	if ok, why := core.EqualRecs(rr.Recs, base.Recs); !ok {
		return mk("silent-wrong-rows", "no error reported (constructor nil, Error() nil) but "+why)
	}
	return nil, src, rr
}

func (p c10) Check(c *core.Case) (*core.Violation, error) {
	if c.SrcFault == nil {
		return nil, fmt.Errorf("C10 case needs src_fault")
	}
	f, err := fileOfCase(c)
	if err != nil {
		return nil, err
	}
	base, bsrc := baselineRead(f.W.ReadShape(), f.Data, kindOr(c.SourceKind), 2*len(f.Want)+16)
	if !usableBaseline(base, f.Want) {
		return nil, fmt.Errorf("fault-free read of the case's file is not usable as a reference")
	}
	v, _, _ := p.check(c, f, base, bsrc.Stats.Calls)
	return v, nil
}

func (p c10) Shrink(c *core.Case) []*core.Case {
	var out []*core.Case
	ft := *c.SrcFault
	if c.Frag != nil {
		n := *c
		n.Frag = nil
		out = append(out, &n)
	}
	if c.ReadMode != "" {
		n := *c
		n.ReadMode = ""
		out = append(out, &n)
	}
	if ft.Sticky {
		n := *c
		g := ft
		g.Sticky = false
		n.SrcFault = &g
		out = append(out, &n)
	}
	if ft.Burst > 1 {
		n := *c
		g := ft
		g.Burst--
		n.SrcFault = &g
		out = append(out, &n)
	}
	if ft.Flavor != "" && ft.Flavor != "plain" {
		n := *c
		g := ft
		g.Flavor = ""
		n.SrcFault = &g
		out = append(out, &n)
	}
	if ft.Kind != "err0" {
		n := *c
		g := ft
		g.Kind = "err0"
		n.SrcFault = &g
		out = append(out, &n)
	}
	if c.SourceKind != "" && c.SourceKind != "rs" {
		n := *c
		n.SourceKind = "rs"
		out = append(out, &n)
	}
	// shrinking the file moves call indices: try each simpler file with the
	// fault at every earlier-or-equal position that still fails (bounded)
	for _, cand := range writerCandidates(c) {
		for _, k := range []int{ft.K, ft.K - 1, ft.K / 2, ft.K * 3 / 4, ft.K / 4} {
			if k >= 1 && k <= ft.K {
				n := *cand
				g := ft
				g.K = k
				n.SrcFault = &g
				out = append(out, &n)
			}
		}
	}
	return out
}

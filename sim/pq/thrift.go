// Package pq is an independent framing parser for Parquet files, written from
// the Parquet and Thrift compact-protocol specifications. It shares no code
// with parsyl/parquet (nor with apache/thrift): own compact decoder, own
// RLE/bit-packed hybrid decoder. It is the oracle for "the file is valid and
// the row counts in the footer equal the rows actually stored".
package pq

import (
	"errors"
	"fmt"
)

// Thrift compact wire types.
const (
	tStop   = 0
	tTrue   = 1
	tFalse  = 2
	tByte   = 3
	tI16    = 4
	tI32    = 5
	tI64    = 6
	tDouble = 7
	tBinary = 8
	tList   = 9
	tSet    = 10
	tMap    = 11
	tStruct = 12
)

// Val is a generic decoded thrift value.
type Val struct {
	T      byte
	I      int64          // bool (0/1), byte, i16, i32, i64
	Bin    []byte         // binary / string; double as 8 raw bytes
	List   []*Val         // list / set
	Fields map[int16]*Val // struct
	Order  []int16        // field ids in wire order
}

func (v *Val) Field(id int16) *Val {
	if v == nil || v.Fields == nil {
		return nil
	}
	return v.Fields[id]
}

// Int returns the integer value of field id, or def when absent.
func (v *Val) Int(id int16, def int64) int64 {
	f := v.Field(id)
	if f == nil {
		return def
	}
	return f.I
}

func (v *Val) Has(id int16) bool { return v.Field(id) != nil }

type dec struct {
	b   []byte
	pos int
	// depth guard
	depth int
}

var errShort = errors.New("pq: unexpected end of data")

func (d *dec) byte() (byte, error) {
	if d.pos >= len(d.b) {
		return 0, errShort
	}
	c := d.b[d.pos]
	d.pos++
	return c, nil
}

func (d *dec) uvarint() (uint64, error) {
	var x uint64
	var s uint
	for i := 0; i < 10; i++ {
		c, err := d.byte()
		if err != nil {
			return 0, err
		}
		x |= uint64(c&0x7f) << s
		if c&0x80 == 0 {
			return x, nil
		}
		s += 7
	}
	return 0, errors.New("pq: varint too long")
}

func (d *dec) zigzag() (int64, error) {
	u, err := d.uvarint()
	if err != nil {
		return 0, err
	}
	return int64(u>>1) ^ -int64(u&1), nil
}

func (d *dec) value(t byte) (*Val, error) {
	d.depth++
	defer func() { d.depth-- }()
	if d.depth > 64 {
		return nil, errors.New("pq: nesting too deep")
	}
	v := &Val{T: t}
	switch t {
	case tTrue:
		v.I = 1
	case tFalse:
		v.I = 0
	case tByte:
		c, err := d.byte()
		if err != nil {
			return nil, err
		}
		v.I = int64(int8(c))
	case tI16, tI32, tI64:
		x, err := d.zigzag()
		if err != nil {
			return nil, err
		}
		v.I = x
	case tDouble:
		if d.pos+8 > len(d.b) {
			return nil, errShort
		}
		v.Bin = d.b[d.pos : d.pos+8]
		d.pos += 8
	case tBinary:
		n, err := d.uvarint()
		if err != nil {
			return nil, err
		}
		if n > uint64(len(d.b)-d.pos) {
			return nil, errShort
		}
		v.Bin = d.b[d.pos : d.pos+int(n)]
		d.pos += int(n)
	case tList, tSet:
		h, err := d.byte()
		if err != nil {
			return nil, err
		}
		n := uint64(h >> 4)
		et := h & 0x0f
		if n == 15 {
			n, err = d.uvarint()
			if err != nil {
				return nil, err
			}
		}
		if n > uint64(len(d.b)-d.pos)+1 && et != tTrue && et != tFalse {
			return nil, errShort
		}
		for i := uint64(0); i < n; i++ {
			var e *Val
			if et == tTrue || et == tFalse {
				c, err := d.byte()
				if err != nil {
					return nil, err
				}
				e = &Val{T: tTrue}
				if c == 1 {
					e.I = 1
				}
			} else {
				e, err = d.value(et)
				if err != nil {
					return nil, err
				}
			}
			v.List = append(v.List, e)
		}
	case tMap:
		n, err := d.uvarint()
		if err != nil {
			return nil, err
		}
		if n > 0 {
			h, err := d.byte()
			if err != nil {
				return nil, err
			}
			kt, vt := h>>4, h&0x0f
			for i := uint64(0); i < n; i++ {
				if _, err := d.value(kt); err != nil {
					return nil, err
				}
				if _, err := d.value(vt); err != nil {
					return nil, err
				}
			}
		}
	case tStruct:
		v.Fields = map[int16]*Val{}
		last := int16(0)
		for {
			h, err := d.byte()
			if err != nil {
				return nil, err
			}
			if h == tStop {
				return v, nil
			}
			ft := h & 0x0f
			delta := int16(h >> 4)
			var id int16
			if delta == 0 {
				x, err := d.zigzag()
				if err != nil {
					return nil, err
				}
				id = int16(x)
			} else {
				id = last + delta
			}
			last = id
			f, err := d.value(ft)
			if err != nil {
				return nil, fmt.Errorf("field %d: %w", id, err)
			}
			v.Fields[id] = f
			v.Order = append(v.Order, id)
		}
	default:
		return nil, fmt.Errorf("pq: unknown thrift type %d", t)
	}
	return v, nil
}

// DecodeStruct decodes one thrift-compact struct at the start of b and
// returns it with the number of bytes it occupies.
func DecodeStruct(b []byte) (*Val, int, error) {
	d := &dec{b: b}
	v, err := d.value(tStruct)
	if err != nil {
		return nil, 0, err
	}
	return v, d.pos, nil
}

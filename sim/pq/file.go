package pq

import (
	"bytes"
	"compress/gzip"
	"encoding/binary"
	"fmt"
	"io"
	"strings"

	"github.com/golang/snappy"
)

// Problem is the first structural defect found in a file.
type Problem struct {
	Class  string // short stable class, used in violation signatures
	Detail string
}

func (p *Problem) Error() string { return p.Class + ": " + p.Detail }

func prob(class, format string, args ...interface{}) *Problem {
	return &Problem{Class: class, Detail: fmt.Sprintf(format, args...)}
}

// Leaf is a column of the footer's schema tree.
type Leaf struct {
	Elems  []string // path elements (a name may itself contain a dot); compared element-wise when set
	Path   string
	Type   int64 // physical type
	MaxDef int
	MaxRep int
}

// Page is one data page.
type Page struct {
	Off        int   // offset of the page header
	HeaderLen  int   // bytes of the thrift header
	CompSize   int64 // compressed_page_size
	UncompSize int64
	NumValues  int64
	Rows       int64 // entries with repetition level 0 (== NumValues for non-repeated columns)
	NonNull    int64
}

// Chunk is one column chunk.
type Chunk struct {
	Path      string
	Codec     int64
	NumValues int64
	Off       int64
	Size      int64
	Pages     []Page
	Rows      int64
}

// RowGroup is one row group of the footer.
type RowGroup struct {
	NumRows int64
	Chunks  []Chunk
}

// File is the parsed framing of a file.
type File struct {
	NumRows   int64
	Leaves    []Leaf
	RowGroups []RowGroup
	FooterOff int
	FooterLen int
}

const magic = "PAR1"

// Parse checks the framing of a complete file: magic, footer, schema, and
// that the row groups' column chunks and pages tile the bytes between the
// leading magic and the footer exactly, with the value and row counts the
// footer records.
//
// leaves gives the columns (path, physical type, maximum levels) in schema
// order. When nil they are taken from the footer's schema tree; callers that
// know the schema they wrote pass it in, so that the well-formedness of the
// footer's schema tree (a separate property) is not a precondition.
func Parse(data []byte, leaves []Leaf) (*File, *Problem) {
	if len(data) < 12 {
		return nil, prob("magic", "file has %d bytes", len(data))
	}
	if string(data[:4]) != magic {
		return nil, prob("magic", "leading magic is %q", data[:4])
	}
	if string(data[len(data)-4:]) != magic {
		return nil, prob("magic", "trailing magic is %q", data[len(data)-4:])
	}
	flen := int(binary.LittleEndian.Uint32(data[len(data)-8:]))
	foff := len(data) - 8 - flen
	if flen <= 0 || foff < 4 {
		return nil, prob("footer-len", "footer length %d does not fit a file of %d bytes", flen, len(data))
	}
	md, used, err := DecodeStruct(data[foff : len(data)-8])
	if err != nil {
		return nil, prob("footer-decode", "FileMetaData does not decode: %v", err)
	}
	if used != flen {
		return nil, prob("footer-decode", "FileMetaData occupies %d bytes but the length word says %d", used, flen)
	}
	for _, id := range []int16{1, 2, 3, 4} {
		if !md.Has(id) {
			return nil, prob("footer-fields", "FileMetaData lacks required field %d", id)
		}
	}
	f := &File{NumRows: md.Int(3, -1), FooterOff: foff, FooterLen: flen}
	if leaves == nil {
		var p *Problem
		leaves, p = schemaLeaves(md.Field(2))
		if p != nil {
			return nil, p
		}
	}
	f.Leaves = leaves

	pos := int64(4)
	var sumRows int64
	for gi, rgv := range md.Field(4).List {
		if !rgv.Has(1) || !rgv.Has(3) {
			return nil, prob("footer-fields", "row group %d lacks columns or num_rows", gi)
		}
		rg := RowGroup{NumRows: rgv.Int(3, -1)}
		cols := rgv.Field(1).List
		if len(cols) != len(leaves) {
			return nil, prob("columns", "row group %d has %d column chunks, schema has %d leaves", gi, len(cols), len(leaves))
		}
		for ci, cv := range cols {
			cm := cv.Field(3)
			if cm == nil {
				return nil, prob("footer-fields", "row group %d column %d has no meta_data", gi, ci)
			}
			for _, id := range []int16{1, 3, 4, 5, 6, 7, 9} {
				if !cm.Has(id) {
					return nil, prob("footer-fields", "row group %d column %d meta_data lacks field %d", gi, ci, id)
				}
			}
			var parts []string
			for _, e := range cm.Field(3).List {
				parts = append(parts, string(e.Bin))
			}
			ch := Chunk{Path: strings.Join(parts, "."), Codec: cm.Int(4, -1), NumValues: cm.Int(5, -1), Off: cm.Int(9, -1), Size: cm.Int(7, -1)}
			leaf := leaves[ci]
			samePath := ch.Path == leaf.Path
			if leaf.Elems != nil {
				samePath = len(parts) == len(leaf.Elems)
				for i := range leaf.Elems {
					if samePath && parts[i] != leaf.Elems[i] {
						samePath = false
					}
				}
			}
			if !samePath {
				return nil, prob("columns", "row group %d column %d is %q, schema order says %q", gi, ci, ch.Path, leaf.Path)
			}
			if cm.Int(1, -1) != leaf.Type {
				return nil, prob("columns", "row group %d column %s has type %d, schema says %d", gi, ch.Path, cm.Int(1, -1), leaf.Type)
			}
			if ch.Off != pos {
				return nil, prob("chunk-offset", "row group %d column %s: data_page_offset %d, but the previous chunk ended at %d", gi, ch.Path, ch.Off, pos)
			}
			if ch.Size < 0 || ch.Off+ch.Size > int64(foff) {
				return nil, prob("chunk-size", "row group %d column %s: [%d,+%d) overlaps the footer at %d", gi, ch.Path, ch.Off, ch.Size, foff)
			}
			end := ch.Off + ch.Size
			var sumVals int64
			for pos < end {
				pg, p := parsePage(data, int(pos), int(end), leaf, ch.Codec)
				if p != nil {
					p.Detail = fmt.Sprintf("row group %d column %s page %d at %d: %s", gi, ch.Path, len(ch.Pages), pos, p.Detail)
					return nil, p
				}
				ch.Pages = append(ch.Pages, *pg)
				pos += int64(pg.HeaderLen) + pg.CompSize
				sumVals += pg.NumValues
				ch.Rows += pg.Rows
			}
			if pos != end {
				return nil, prob("page-tiling", "row group %d column %s: pages end at %d, chunk ends at %d", gi, ch.Path, pos, end)
			}
			if sumVals != ch.NumValues {
				return nil, prob("chunk-num-values", "row group %d column %s: pages hold %d values, footer says %d", gi, ch.Path, sumVals, ch.NumValues)
			}
			if ch.Rows != rg.NumRows {
				return nil, prob("chunk-rows", "row group %d column %s stores %d rows, footer row group says %d", gi, ch.Path, ch.Rows, rg.NumRows)
			}
			rg.Chunks = append(rg.Chunks, ch)
		}
		sumRows += rg.NumRows
		f.RowGroups = append(f.RowGroups, rg)
	}
	if pos != int64(foff) {
		return nil, prob("unaccounted-bytes", "row groups account for bytes [4,%d) but the footer starts at %d: %d bytes on the stream belong to no column chunk", pos, foff, int64(foff)-pos)
	}
	if f.NumRows != sumRows {
		return nil, prob("footer-num-rows", "FileMetaData.num_rows is %d but the row groups hold %d rows", f.NumRows, sumRows)
	}
	return f, nil
}

func schemaLeaves(list *Val) ([]Leaf, *Problem) {
	if list == nil || len(list.List) == 0 {
		return nil, prob("schema", "empty schema")
	}
	els := list.List
	idx := 1
	var leaves []Leaf
	var walk func(n int, path []string, def, rep int) *Problem
	walk = func(n int, path []string, def, rep int) *Problem {
		for i := 0; i < n; i++ {
			if idx >= len(els) {
				return prob("schema", "schema tree needs more elements than the %d present", len(els))
			}
			e := els[idx]
			idx++
			name := ""
			if e.Has(4) {
				name = string(e.Field(4).Bin)
			}
			if !e.Has(3) {
				return prob("schema", "element %q has no repetition_type", name)
			}
			d, r := def, rep
			switch e.Int(3, 0) {
			case 0: // required
			case 1: // optional
				d++
			case 2: // repeated
				d++
				r++
			default:
				return prob("schema", "element %q has repetition_type %d", name, e.Int(3, 0))
			}
			p := append(append([]string(nil), path...), name)
			if nc := e.Int(5, 0); nc > 0 {
				if e.Has(1) {
					return prob("schema", "group %q has a physical type", name)
				}
				if pr := walk(int(nc), p, d, r); pr != nil {
					return pr
				}
			} else {
				if !e.Has(1) {
					return prob("schema", "leaf %q has no physical type", name)
				}
				leaves = append(leaves, Leaf{Path: strings.Join(p, "."), Type: e.Int(1, -1), MaxDef: d, MaxRep: r})
			}
		}
		return nil
	}
	if p := walk(int(els[0].Int(5, 0)), nil, 0, 0); p != nil {
		return nil, p
	}
	if idx != len(els) {
		return nil, prob("schema", "schema has %d elements but the tree uses %d", len(els), idx)
	}
	return leaves, nil
}

func bitWidth(max int) int {
	w := 0
	for max > 0 {
		w++
		max >>= 1
	}
	return w
}

func parsePage(data []byte, pos, end int, leaf Leaf, codec int64) (*Page, *Problem) {
	hv, hlen, err := DecodeStruct(data[pos:end])
	if err != nil {
		return nil, prob("page-header", "page header does not decode: %v", err)
	}
	if !hv.Has(1) || !hv.Has(2) || !hv.Has(3) {
		return nil, prob("page-header", "page header lacks type or sizes")
	}
	if hv.Int(1, -1) != 0 {
		return nil, prob("page-header", "page type %d is not a v1 data page", hv.Int(1, -1))
	}
	dh := hv.Field(5)
	if dh == nil || !dh.Has(1) {
		return nil, prob("page-header", "data page header missing")
	}
	pg := &Page{Off: pos, HeaderLen: hlen, CompSize: hv.Int(3, -1), UncompSize: hv.Int(2, -1), NumValues: dh.Int(1, -1)}
	if pg.CompSize < 0 || pos+hlen+int(pg.CompSize) > end {
		return nil, prob("page-tiling", "page of %d+%d bytes does not fit its chunk (ends at %d)", hlen, pg.CompSize, end)
	}
	if pg.NumValues < 0 {
		return nil, prob("page-header", "negative num_values")
	}
	body := data[pos+hlen : pos+hlen+int(pg.CompSize)]
	var raw []byte
	switch codec {
	case 0:
		raw = body
	case 1:
		raw, err = snappy.Decode(nil, body)
		if err != nil {
			return nil, prob("page-body", "snappy: %v", err)
		}
	case 2:
		zr, err := gzip.NewReader(bytes.NewReader(body))
		if err != nil {
			return nil, prob("page-body", "gzip: %v", err)
		}
		raw, err = io.ReadAll(zr)
		if err != nil {
			return nil, prob("page-body", "gzip: %v", err)
		}
	default:
		return nil, prob("page-body", "codec %d", codec)
	}
	if int64(len(raw)) != pg.UncompSize {
		return nil, prob("page-size", "uncompressed page is %d bytes, header says %d", len(raw), pg.UncompSize)
	}
	rest := raw
	n := int(pg.NumValues)
	pg.Rows = pg.NumValues
	if leaf.MaxRep > 0 {
		reps, used, err := decodeLevels(rest, bitWidth(leaf.MaxRep), n)
		if err != nil {
			return nil, prob("page-levels", "repetition levels: %v", err)
		}
		rest = rest[used:]
		pg.Rows = 0
		for _, r := range reps {
			if int(r) > leaf.MaxRep {
				return nil, prob("page-levels", "repetition level %d exceeds max %d", r, leaf.MaxRep)
			}
			if r == 0 {
				pg.Rows++
			}
		}
	}
	pg.NonNull = pg.NumValues
	if leaf.MaxDef > 0 {
		defs, used, err := decodeLevels(rest, bitWidth(leaf.MaxDef), n)
		if err != nil {
			return nil, prob("page-levels", "definition levels: %v", err)
		}
		rest = rest[used:]
		pg.NonNull = 0
		for _, d := range defs {
			if int(d) > leaf.MaxDef {
				return nil, prob("page-levels", "definition level %d exceeds max %d", d, leaf.MaxDef)
			}
			if int(d) == leaf.MaxDef {
				pg.NonNull++
			}
		}
	}
	// PLAIN values must tile the rest of the page exactly
	nn := int(pg.NonNull)
	want := -1
	switch leaf.Type {
	case 0: // BOOLEAN, bit-packed
		want = (nn + 7) / 8
	case 1, 4: // INT32, FLOAT
		want = 4 * nn
	case 2, 5: // INT64, DOUBLE
		want = 8 * nn
	case 3: // INT96
		want = 12 * nn
	case 6: // BYTE_ARRAY
		off := 0
		for i := 0; i < nn; i++ {
			if off+4 > len(rest) {
				return nil, prob("page-values", "byte array %d of %d starts beyond the page", i, nn)
			}
			l := int(binary.LittleEndian.Uint32(rest[off:]))
			off += 4 + l
			if l < 0 || off > len(rest) {
				return nil, prob("page-values", "byte array %d of %d overruns the page", i, nn)
			}
		}
		want = off
	}
	if want >= 0 && want != len(rest) {
		return nil, prob("page-values", "value section has %d bytes, %d non-null values of type %d need %d", len(rest), nn, leaf.Type, want)
	}
	return pg, nil
}

// decodeLevels decodes a v1 level section: u32-LE byte length, then
// RLE/bit-packed hybrid runs. It returns the first n levels and the number of
// bytes consumed.
func decodeLevels(b []byte, width, n int) ([]uint8, int, error) {
	if len(b) < 4 {
		return nil, 0, fmt.Errorf("no length prefix")
	}
	l := int(binary.LittleEndian.Uint32(b))
	if l < 0 || 4+l > len(b) {
		return nil, 0, fmt.Errorf("length prefix %d exceeds the page", l)
	}
	s := b[4 : 4+l]
	var out []uint8
	pos := 0
	for pos < len(s) {
		// header varint
		var h uint64
		var sh uint
		for {
			if pos >= len(s) {
				return nil, 0, fmt.Errorf("truncated run header")
			}
			c := s[pos]
			pos++
			h |= uint64(c&0x7f) << sh
			if c&0x80 == 0 {
				break
			}
			sh += 7
			if sh > 35 {
				return nil, 0, fmt.Errorf("run header too long")
			}
		}
		if h&1 == 1 {
			groups := int(h >> 1)
			nbytes := groups * width
			if groups == 0 || pos+nbytes > len(s) {
				return nil, 0, fmt.Errorf("bit-packed run of %d groups does not fit", groups)
			}
			var acc uint64
			var bits uint
			cnt := 0
			for i := 0; i < nbytes; i++ {
				acc |= uint64(s[pos+i]) << bits
				bits += 8
				for width > 0 && bits >= uint(width) {
					out = append(out, uint8(acc&((1<<uint(width))-1)))
					acc >>= uint(width)
					bits -= uint(width)
					cnt++
				}
			}
			if width == 0 {
				out = append(out, make([]uint8, groups*8)...)
			}
			pos += nbytes
		} else {
			cnt := int(h >> 1)
			if cnt == 0 {
				return nil, 0, fmt.Errorf("RLE run of length 0")
			}
			vb := (width + 7) / 8
			if pos+vb > len(s) {
				return nil, 0, fmt.Errorf("truncated RLE value")
			}
			var v uint8
			if vb > 0 {
				v = s[pos]
			}
			pos += vb
			if cnt > 1<<24 {
				return nil, 0, fmt.Errorf("RLE run of %d", cnt)
			}
			for i := 0; i < cnt; i++ {
				out = append(out, v)
			}
		}
	}
	if len(out) < n {
		return nil, 0, fmt.Errorf("%d levels encoded, page has %d values", len(out), n)
	}
	return out[:n], 4 + l, nil
}

// racemon is the supplementary monitor for the "free of data races" clause of
// C13. It is NOT part of the deterministic simulation: it runs independent
// writer/reader instances on real parallel goroutines over the REAL
// bytebufferpool, built with -race. The race detector has no false positives,
// so a report is a true violation; re-running the same seed reproduces it with
// high probability but not with certainty. It also compares every instance's
// output with its solo run (interference under real parallelism).
//
//	racemon -seed n -goroutines g -rounds r
//
// Exit: 0 clean, 1 interference found (bytes/records differ), 66 data race
// reported by the race detector (GORACE exitcode), 2 trouble.
package main

import (
	"bytes"
	"flag"
	"fmt"
	"os"
	"sync"

	"verifsim/core"
	_ "verifsim/shapes/doc"
	_ "verifsim/shapes/flat"
	_ "verifsim/shapes/flatb"
	_ "verifsim/shapes/nested"
	_ "verifsim/shapes/nestedb"
	_ "verifsim/shapes/person"
	_ "verifsim/shapes/rep3"
)

type task struct {
	reader bool
	w      *core.WriterSpec
	kind   string
	file   []byte
	want   []byte        // writer reference
	recs   []interface{} // reader reference
}

func main() {
	seed := flag.Uint64("seed", 1, "")
	g := flag.Int("goroutines", 4, "")
	rounds := flag.Int("rounds", 3, "")
	per := flag.Int("per", 3, "instances per goroutine and round")
	flag.Parse()
	r := core.NewRng(core.Mix(*seed, 0xace))
	o := core.HistOpts{Shapes: []string{"doc", "flat", "flatb", "nested", "nestedb", "person", "rep3"}, PageMin: 1, PageMax: 4, MinBatches: 1, MaxBatches: 3, MaxOps: 10, Profile: core.Benign}
	bad := 0
	total := 0
	for round := 0; round < *rounds; round++ {
		tasks := make([][]*task, *g)
		for i := 0; i < *g; i++ {
			for j := 0; j < *per; j++ {
				t := &task{w: core.GenHistory(r, o), reader: r.Chance(1, 3), kind: []string{"rs", "rsb"}[r.Intn(2)]}
				// solo reference (sequential, before anything runs in parallel in this round)
				sink := &core.Sink{}
				res := core.ExecWriter(t.w, sink)
				if res.Failed() != nil || !res.Closed {
					fmt.Println("racemon: reference writer failed")
					os.Exit(2)
				}
				if t.reader {
					t.file = sink.Data
					rr := core.ExecReader(t.w.Shape, core.NewSource(t.file, nil, nil).AsReadSeeker(t.kind), 1<<20, nil)
					if rr.Reported() || rr.Panic != "" {
						fmt.Println("racemon: reference reader failed")
						os.Exit(2)
					}
					t.recs = rr.Recs
				} else {
					t.want = sink.Data
				}
				tasks[i] = append(tasks[i], t)
			}
		}
		var wg sync.WaitGroup
		var mu sync.Mutex
		for i := 0; i < *g; i++ {
			wg.Add(1)
			go func(list []*task) {
				defer wg.Done()
				for _, t := range list {
					ok := true
					why := ""
					if t.reader {
						rr := core.ExecReader(t.w.Shape, core.NewSource(t.file, nil, nil).AsReadSeeker(t.kind), 1<<20, nil)
						if rr.Reported() || rr.Panic != "" {
							ok, why = false, "reader failed: "+rr.CtorErr+rr.FinalErr+rr.Panic
						} else if eq, d := core.EqualRecs(rr.Recs, t.recs); !eq {
							ok, why = false, d
						}
					} else {
						sink := &core.Sink{}
						res := core.ExecWriter(t.w, sink)
						if f := res.Failed(); f != nil {
							ok, why = false, "writer failed: "+f.Err+f.Panic
						} else if !bytes.Equal(sink.Data, t.want) {
							ok, why = false, "bytes differ from the solo run"
						}
					}
					mu.Lock()
					total++
					if !ok {
						bad++
						fmt.Printf("INTERFERENCE %s: %s\n", t.w.HistoryString(), why)
					}
					mu.Unlock()
				}
			}(tasks[i])
		}
		wg.Wait()
	}
	fmt.Printf("racemon: seed=%d goroutines=%d rounds=%d instances=%d interference=%d\n", *seed, *g, *rounds, total, bad)
	if bad > 0 {
		os.Exit(1)
	}
}

// racemon is the supplementary monitor for the "free of data races" clause of
// C13. It is NOT part of the deterministic simulation: it runs independent
// writer/reader instances on real parallel goroutines over the REAL
// bytebufferpool, built with -race. The race detector has no false positives,
// so a report is a true violation; re-running the same seed reproduces it with
// high probability but not with certainty. It also compares every instance's
// output with its solo run (interference under real parallelism).
//
//	racemon -seed n -goroutines g -rounds r
//
// Exit: 0 clean, 1 interference found (bytes/records differ), 66 data race
// reported by the race detector (GORACE exitcode), 2 trouble.
package main

import (
	"bytes"
	"flag"
	"fmt"
	"os"
	"sync"

	"verifsim/core"
	_ "verifsim/shapes/doc"
	_ "verifsim/shapes/flat"
	_ "verifsim/shapes/flatb"
	_ "verifsim/shapes/kv"
	_ "verifsim/shapes/nested"
	_ "verifsim/shapes/nestedb"
	_ "verifsim/shapes/opt4"
	_ "verifsim/shapes/pair"
	_ "verifsim/shapes/person"
	_ "verifsim/shapes/rep3"
	_ "verifsim/shapes/wide"
)

type task struct {
	reader  bool
	w       *core.WriterSpec
	kind    string
	got     []byte        // bytes written in the parallel phase
	gotRecs []interface{} // records read in the parallel phase
	gotErr  bool
}

func main() {
	seed := flag.Uint64("seed", 1, "")
	g := flag.Int("goroutines", 4, "")
	rounds := flag.Int("rounds", 3, "")
	per := flag.Int("per", 3, "instances per goroutine and round")
	flag.Parse()
	r := core.NewRng(core.Mix(*seed, 0xace))
	o := core.HistOpts{Shapes: []string{"doc", "flat", "flatb", "kv", "nested", "nestedb", "opt4", "pair", "person", "rep3"}, PageMin: 1, PageMax: 4, MinBatches: 1, MaxBatches: 3, MaxOps: 10, Profile: core.Benign}
	bad := 0
	total := 0
	// First-use stampede: for every shape, all goroutines start a writer at the
	// same moment before any writer of that shape has run in this process, and
	// then all start a reader of the file at the same moment before any reader of
	// that shape has run. Lazily initialised package-level state is only raced
	// on by the FIRST users of a process; a harness that warms up sequentially
	// never sees it.
	for _, shape := range o.Shapes {
		so := o
		so.Shapes = []string{shape}
		so.MaxOps = 6
		specs := make([]*core.WriterSpec, *g)
		for i := range specs {
			specs[i] = core.GenHistory(r, so)
		}
		files := make([][]byte, *g)
		var wg sync.WaitGroup
		start := make(chan struct{})
		for i := 0; i < *g; i++ {
			wg.Add(1)
			go func(i int) {
				defer wg.Done()
				<-start
				sink := &core.Sink{}
				core.ExecWriter(specs[i], sink)
				files[i] = sink.Data
			}(i)
		}
		close(start)
		wg.Wait()
		start = make(chan struct{})
		recs := make([][]interface{}, *g)
		for i := 0; i < *g; i++ {
			wg.Add(1)
			go func(i int) {
				defer wg.Done()
				<-start
				rr := core.ExecReader(shape, core.NewSource(files[i], nil, nil).AsReadSeeker("rs"), 1<<20, nil)
				recs[i] = rr.Recs
			}(i)
		}
		close(start)
		wg.Wait()
		// compare with sequential solo runs afterwards
		for i := 0; i < *g; i++ {
			total++
			sink := &core.Sink{}
			core.ExecWriter(specs[i], sink)
			rr := core.ExecReader(shape, core.NewSource(sink.Data, nil, nil).AsReadSeeker("rs"), 1<<20, nil)
			if !bytes.Equal(sink.Data, files[i]) {
				bad++
				fmt.Printf("INTERFERENCE %s: bytes of a first-use writer differ from the solo run\n", specs[i].HistoryString())
			} else if eq, d := core.EqualRecs(recs[i], rr.Recs); !eq {
				bad++
				fmt.Printf("INTERFERENCE %s: records of a first-use reader differ from the solo run: %s\n", specs[i].HistoryString(), d)
			}
		}
	}
	// Writers that are handed the SAME record values (slices with spare
	// capacity, as windows into one array have): records are inputs; a writer
	// that adopts or appends to a caller's slice writes into memory another
	// writer is reading.
	{
		so := o
		so.MaxOps = 12
		so.Profile.MaxList = 3
		spec := core.GenHistory(r, so)
		for i := range spec.Ops {
			if spec.Ops[i].K == "add" {
				spec.Ops[i].SetVal(core.CopyRecSpare(spec.Ops[i].Val(core.GetShape(spec.Shape))))
			}
		}
		var before []string
		for i := range spec.Ops {
			if spec.Ops[i].K == "add" {
				before = append(before, string(core.RecJSON(spec.Ops[i].Val(core.GetShape(spec.Shape)))))
			}
		}
		outs := make([][]byte, *g)
		var wg sync.WaitGroup
		start := make(chan struct{})
		for i := 0; i < *g; i++ {
			wg.Add(1)
			go func(i int) {
				defer wg.Done()
				<-start
				sink := &core.Sink{}
				core.ExecWriterShared(spec, sink)
				outs[i] = sink.Data
			}(i)
		}
		close(start)
		wg.Wait()
		total++
		k := 0
		for i := range spec.Ops {
			if spec.Ops[i].K == "add" {
				if string(core.RecJSON(spec.Ops[i].Val(core.GetShape(spec.Shape)))) != before[k] {
					bad++
					fmt.Printf("INTERFERENCE %s: a record the caller shared between writers was modified by a writer\n", spec.HistoryString())
					break
				}
				k++
			}
		}
		solo := &core.Sink{}
		core.ExecWriter(spec, solo)
		for i := range outs {
			if !bytes.Equal(outs[i], solo.Data) {
				bad++
				fmt.Printf("INTERFERENCE %s: a writer fed shared records produced bytes that differ from the solo run\n", spec.HistoryString())
				break
			}
		}
	}

	// Instances that FAIL at the same time: every goroutine runs writers whose
	// destination fails at a seeded call, and readers whose source fails, each
	// with a different error value. Error paths have state too (error objects,
	// cleanup of buffers), and only failing instances exercise it.
	{
		var wg sync.WaitGroup
		fo := o
		fo.MaxOps = 8
		type ftask struct {
			w    *core.WriterSpec
			sf   core.SinkFault
			rf   core.SrcFault
			file []byte
			errs []string
		}
		all := make([][]*ftask, *g)
		for i := 0; i < *g; i++ {
			for j := 0; j < 4; j++ {
				w := core.GenHistory(r, fo)
				t := &ftask{w: w}
				t.sf = core.SinkFault{K: r.Range(1, 30), Kind: []string{"err0", "torn", "full"}[r.Intn(3)], Arg: r.Intn(1 << 16), Sticky: r.Chance(1, 2), Flavor: core.Flavors[r.Intn(len(core.Flavors))]}
				t.rf = core.SrcFault{K: r.Range(1, 800), Kind: []string{"err0", "partial", "early_eof", "full"}[r.Intn(4)], Arg: r.Intn(1 << 16), Sticky: r.Chance(1, 2), Flavor: core.Flavors[r.Intn(len(core.Flavors))]}
				all[i] = append(all[i], t)
			}
		}
		start := make(chan struct{})
		for i := 0; i < *g; i++ {
			wg.Add(1)
			go func(list []*ftask) {
				defer wg.Done()
				<-start
				for _, t := range list {
					res := core.ExecWriter(t.w, &core.Sink{Fault: &t.sf})
					for _, a := range res.APIs {
						t.errs = append(t.errs, a.Err)
					}
					res.CloseAfterFailure()
					ok := &core.Sink{}
					if wr := core.ExecWriter(t.w, ok); wr.Failed() == nil {
						rr := core.ExecReader(t.w.Shape, core.NewSource(ok.Data, nil, &t.rf).AsReadSeeker("rs"), 1<<20, nil)
						t.errs = append(t.errs, rr.CtorErr, rr.FinalErr)
					}
				}
			}(all[i])
		}
		close(start)
		wg.Wait()
		// the error texts an instance saw must be what it sees alone
		for i := 0; i < *g; i++ {
			for _, t := range all[i] {
				total++
				var solo []string
				res := core.ExecWriter(t.w, &core.Sink{Fault: &t.sf})
				for _, a := range res.APIs {
					solo = append(solo, a.Err)
				}
				res.CloseAfterFailure()
				ok := &core.Sink{}
				if wr := core.ExecWriter(t.w, ok); wr.Failed() == nil {
					rr := core.ExecReader(t.w.Shape, core.NewSource(ok.Data, nil, &t.rf).AsReadSeeker("rs"), 1<<20, nil)
					solo = append(solo, rr.CtorErr, rr.FinalErr)
				}
				if fmt.Sprint(solo) != fmt.Sprint(t.errs) {
					bad++
					fmt.Printf("INTERFERENCE %s: a failing instance reported %q next to other failing instances, %q alone\n", t.w.HistoryString(), t.errs, solo)
				}
			}
		}
	}

	// One very large Write per goroutine (16384 and 16385 rows of a two- and a
	// three-column shape): code paths that only exist for big row groups.
	{
		var wg sync.WaitGroup
		outs := make([][]byte, 2)
		specs := make([]*core.WriterSpec, 2)
		for i := range specs {
			shape := []string{"kv", "pair"}[i]
			w := &core.WriterSpec{Shape: shape, Page: 16384, Codec: core.Codecs[i]}
			rec := core.GenRec(r, core.GetShape(shape).Type, core.Benign)
			op := core.AddOp(rec)
			for k := 0; k < 16384+i; k++ {
				w.Ops = append(w.Ops, op)
			}
			w.Ops = append(w.Ops, core.WriteOp(), core.CloseOp())
			specs[i] = w
			wg.Add(1)
			go func(i int) {
				defer wg.Done()
				sink := &core.Sink{}
				core.ExecWriter(specs[i], sink)
				outs[i] = sink.Data
			}(i)
		}
		wg.Wait()
		for i := range specs {
			total++
			sink := &core.Sink{}
			core.ExecWriter(specs[i], sink)
			if !bytes.Equal(sink.Data, outs[i]) {
				bad++
				fmt.Printf("INTERFERENCE %s: bytes of a 16384-row Write differ from the solo run\n", specs[i].Shape)
			}
		}
	}
	for round := 0; round < *rounds; round++ {
		// Workloads grow from round to round, and the parallel phase runs BEFORE
		// the solo references are computed: shared state of the "high-water mark"
		// kind (a hint that is only written when something is larger than anything
		// seen before in the process) is then written during the parallel phase
		// and not warmed up by the harness itself.
		o.MaxOps = 4 + 6*round
		o.Profile.MaxStr = 6 + 12*round
		tasks := make([][]*task, *g)
		for i := 0; i < *g; i++ {
			for j := 0; j < *per; j++ {
				t := &task{w: core.GenHistory(r, o), reader: r.Chance(1, 2), kind: []string{"rs", "rsb", "rsx", "rsf"}[r.Intn(4)]}
				tasks[i] = append(tasks[i], t)
			}
		}
		// a reader needs its file: written inside the parallel phase by the same goroutine
		var wg sync.WaitGroup
		for i := 0; i < *g; i++ {
			wg.Add(1)
			go func(list []*task) {
				defer wg.Done()
				for _, t := range list {
					sink := &core.Sink{}
					res := core.ExecWriter(t.w, sink)
					t.gotErr = res.Failed() != nil || !res.Closed
					t.got = sink.Data
					if t.reader && !t.gotErr {
						rr := core.ExecReader(t.w.Shape, core.NewSource(sink.Data, nil, nil).AsReadSeeker(t.kind), 1<<20, nil)
						t.gotErr = rr.Reported() || rr.Panic != ""
						t.gotRecs = rr.Recs
					}
				}
			}(tasks[i])
		}
		wg.Wait()
		// solo references, sequentially, afterwards
		for i := 0; i < *g; i++ {
			for _, t := range tasks[i] {
				total++
				sink := &core.Sink{}
				res := core.ExecWriter(t.w, sink)
				ok, why := true, ""
				if res.Failed() != nil || !res.Closed {
					fmt.Println("racemon: reference writer failed")
					os.Exit(2)
				}
				if t.gotErr {
					ok, why = false, "instance failed in the parallel phase, not when run alone"
				} else if !bytes.Equal(sink.Data, t.got) {
					ok, why = false, "bytes differ from the solo run"
				} else if t.reader {
					rr := core.ExecReader(t.w.Shape, core.NewSource(sink.Data, nil, nil).AsReadSeeker(t.kind), 1<<20, nil)
					if rr.Reported() || rr.Panic != "" {
						fmt.Println("racemon: reference reader failed")
						os.Exit(2)
					}
					if eq, d := core.EqualRecs(t.gotRecs, rr.Recs); !eq {
						ok, why = false, "records differ from the solo run: "+d
					}
				}
				if !ok {
					bad++
					fmt.Printf("INTERFERENCE %s: %s\n", t.w.HistoryString(), why)
				}
			}
		}
	}
	fmt.Printf("racemon: seed=%d goroutines=%d rounds=%d instances=%d interference=%d\n", *seed, *g, *rounds, total, bad)
	if bad > 0 {
		os.Exit(1)
	}
}

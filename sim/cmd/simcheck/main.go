// simcheck is the driver of the deterministic simulation checks.
//
//	simcheck run <prop> [-tier quick|thorough] [-seed n] [-workers n] [-verif dir]
//	simcheck worker ...            (internal: one worker process)
//	simcheck replay <file>         re-execute a replay file; exit 1 + VIOLATION line iff it reproduces
//	simcheck fingerprint <prop> ...(internal: determinism self-test)
//
// Exit codes: 0 property held on everything explored (or only known findings);
// 1 VIOLATION (reproduced in a fresh process); 2 infrastructure trouble.
package main

import (
	"bufio"
	"bytes"
	"encoding/json"
	"flag"
	"fmt"
	"os"
	"os/exec"
	"path/filepath"
	"runtime"
	"runtime/debug"
	"runtime/pprof"
	"sort"
	"strconv"
	"strings"
	"time"

	"verifsim/core"
	"verifsim/props"
	_ "verifsim/shapes/doc"
	_ "verifsim/shapes/flat"
	_ "verifsim/shapes/flatb"
	_ "verifsim/shapes/kv"
	_ "verifsim/shapes/nested"
	_ "verifsim/shapes/nestedb"
	_ "verifsim/shapes/opt4"
	_ "verifsim/shapes/pair"
	_ "verifsim/shapes/person"
	_ "verifsim/shapes/rep3"
	_ "verifsim/shapes/wide"
	_ "verifsim/shapes/bits"
	_ "verifsim/shapes/clash"
	_ "verifsim/shapes/flatp"
	_ "verifsim/shapes/kvp"
	_ "verifsim/shapes/nestedp"
)

func main() {
	if len(os.Args) < 2 {
		fatal2("usage: simcheck run|worker|replay|fingerprint ...")
	}
	switch os.Args[1] {
	case "run":
		os.Exit(cmdRun(os.Args[2:]))
	case "worker":
		os.Exit(cmdWorker(os.Args[2:]))
	case "replay":
		os.Exit(cmdReplay(os.Args[2:]))
	case "fingerprint":
		os.Exit(cmdFingerprint(os.Args[2:]))
	case "solo":
		os.Exit(cmdSolo())
	case "readprefix":
		os.Exit(props.RunRiskyChild())
	default:
		fatal2("unknown command " + os.Args[1])
	}
}

func fatal2(msg string) {
	fmt.Fprintln(os.Stderr, "simcheck: "+msg)
	os.Exit(2)
}

func propSeed(seed uint64, prop string, i int) uint64 {
	return core.Mix(seed, core.HashString(prop), uint64(i))
}

// ------------------------------------------------------------------ worker

type workerOut struct {
	Acc        *props.Acc        `json:"acc"`
	Violations []*core.Violation `json:"violations"`
	Shrunk     []string          `json:"shrunk"`
	Panic      string            `json:"panic,omitempty"`
	KnownSeen  map[string]int    `json:"known_seen,omitempty"` // known-finding key -> times observed
}

func (k knownFinding) key() string { return k.Prop + " " + k.Sig + " " + k.Site }

// matchKnown returns the known finding a violation belongs to, or nil.
func matchKnown(known []knownFinding, v *core.Violation) *knownFinding {
	for i := range known {
		k := &known[i]
		if k.Prop == v.Prop && k.Sig == v.Sig && (k.Site == "" || strings.Contains(v.Detail, k.Site)) {
			return k
		}
	}
	return nil
}

func cmdWorker(args []string) int {
	fs := flag.NewFlagSet("worker", flag.ExitOnError)
	tier := fs.String("tier", "quick", "")
	seed := fs.Uint64("seed", 1, "")
	from := fs.Int("from", 0, "")
	stride := fs.Int("stride", 1, "")
	total := fs.Int("total", 1, "")
	out := fs.String("out", "", "")
	capS := fs.Int("cap", 0, "wall-clock safety cap in seconds (0 = none)")
	knownPath := fs.String("known", "", "known_findings.txt")
	fs.Parse(args[1:])
	p := props.Get(args[0])
	if p == nil {
		fatal2("unknown property " + args[0])
	}
	runtime.GOMAXPROCS(1)
	debug.SetGCPercent(400)
	if pf := os.Getenv("SIMCHECK_PROF"); pf != "" {
		f, _ := os.Create(pf)
		pprof.StartCPUProfile(f)
		defer pprof.StopCPUProfile()
	}
	start := time.Now()
	res := workerOut{Acc: props.NewAcc(), KnownSeen: map[string]int{}}
	known := loadKnown(*knownPath)
	nNew := 0
	func() {
		defer func() {
			if r := recover(); r != nil {
				buf := make([]byte, 8192)
				buf = buf[:runtime.Stack(buf, false)]
				res.Panic = fmt.Sprintf("%v\n%s", r, buf)
			}
		}()
		for i := *from; i < *total; i += *stride {
			if *capS > 0 && time.Since(start) > time.Duration(*capS)*time.Second {
				res.Acc.Truncated = true
				break
			}
			rs := propSeed(*seed, p.ID(), i)
			res.Acc.Index = i
			vios := p.Run(rs, *tier, res.Acc)
			fresh := 0
			for _, v := range vios {
				if k := matchKnown(known, v); k != nil {
					// a listed finding: counted, reported once per worker, never a reason to stop exploring
					res.KnownSeen[k.key()]++
					if res.KnownSeen[k.key()] == 1 {
						sv, note := shrink(p, v)
						res.Violations = append(res.Violations, sv)
						res.Shrunk = append(res.Shrunk, note)
					}
					continue
				}
				if fresh >= 2 {
					continue
				}
				fresh++
				nNew++
				sv, note := shrink(p, v)
				res.Violations = append(res.Violations, sv)
				res.Shrunk = append(res.Shrunk, note)
			}
			if nNew >= 3 {
				break
			}
		}
	}()
	b, err := json.Marshal(res)
	if err != nil {
		fatal2(err.Error())
	}
	if err := os.WriteFile(*out, b, 0o644); err != nil {
		fatal2(err.Error())
	}
	if res.Panic != "" {
		return 2
	}
	return 0
}

// shrink minimises the case of a violation while the same signature persists.
func shrink(p props.Prop, v *core.Violation) (*core.Violation, string) {
	orig := v.Case.Clone()
	// the cloned case must itself reproduce (it went through JSON)
	first, err := p.Check(orig)
	if err != nil || first == nil || first.Sig != v.Sig {
		return &core.Violation{Prop: v.Prop, Sig: v.Sig, Detail: v.Detail, Case: orig}, "not minimised: serialised case did not reproduce in-process"
	}
	deadline := time.Now().Add(30 * time.Second)
	best := first
	still := func(c *core.Case) bool {
		if time.Now().After(deadline) {
			return false
		}
		nv, err := p.Check(c)
		if err != nil || nv == nil || nv.Sig != v.Sig {
			return false
		}
		best = nv
		return true
	}
	min, used := core.Minimize(orig, func(c *core.Case) []*core.Case {
		cands := p.Shrink(c)
		// detach candidates from shared state
		return cands
	}, still, 300)
	best.Case = min.Clone()
	return best, fmt.Sprintf("delta debugging on the explicit case, %d re-executions, same signature kept", used)
}

// ------------------------------------------------------------------ replay

func cmdReplay(args []string) int {
	if len(args) < 1 {
		fatal2("usage: simcheck replay <file>")
	}
	rf, err := core.LoadReplay(args[0])
	if err != nil {
		fatal2(err.Error())
	}
	p := props.Get(rf.Property)
	if p == nil {
		fatal2("unknown property " + rf.Property)
	}
	if rf.TimeSim != nil {
		tr, err := runTimeSim(*rf.TimeSim)
		if err != nil {
			fmt.Printf("replay: simulated-clock arm could not run: %v\n", err)
			return 2
		}
		if len(tr.Violations) == 0 {
			fmt.Printf("replay: property=%s held on the replayed case (recorded signature %s)\n", rf.Property, rf.Signature)
			return 0
		}
		v := tr.Violations[0]
		fmt.Printf("signature=%s\ndetail=%s\n", v.Sig, v.Detail)
		fmt.Printf("VIOLATION property=%s replay=%s\n", rf.Property, args[0])
		return 1
	}
	if rf.RaceMonitor != nil {
		sig, detail, err := runRaceMonitor(*rf.RaceMonitor, "")
		if err != nil {
			fmt.Printf("replay: race monitor could not run: %v\n", err)
			return 2
		}
		if sig == "" {
			fmt.Printf("replay: the race monitor reported nothing this time (it is not deterministic; recorded signature %s)\n", rf.Signature)
			return 0
		}
		fmt.Printf("signature=%s\ndetail=%s\n", sig, detail)
		fmt.Printf("VIOLATION property=%s replay=%s\n", rf.Property, args[0])
		return 1
	}
	runtime.GOMAXPROCS(1)
	v, err := p.Check(rf.Case)
	if err != nil {
		fmt.Printf("replay: case could not be decided: %v\n", err)
		return 2
	}
	if v == nil {
		fmt.Printf("replay: property=%s held on the replayed case (recorded signature %s)\n", rf.Property, rf.Signature)
		return 0
	}
	fmt.Printf("signature=%s\ndetail=%s\n", v.Sig, v.Detail)
	if rf.Signature != "" && v.Sig != rf.Signature {
		fmt.Printf("replay: a violation reproduced but with a different signature (recorded %s)\n", rf.Signature)
	}
	fmt.Printf("VIOLATION property=%s replay=%s\n", rf.Property, args[0])
	return 1
}

// ------------------------------------------------------------------ fingerprint (determinism self-test)

func cmdFingerprint(args []string) int {
	fs := flag.NewFlagSet("fingerprint", flag.ExitOnError)
	tier := fs.String("tier", "quick", "")
	seed := fs.Uint64("seed", 1, "")
	n := fs.Int("n", 4, "")
	from := fs.Int("from", 0, "")
	procs := fs.Int("procs", 1, "")
	fs.Parse(args[1:])
	p := props.Get(args[0])
	if p == nil {
		fatal2("unknown property " + args[0])
	}
	runtime.GOMAXPROCS(*procs)
	acc := props.NewAcc()
	nv := 0
	for i := 0; i < *n; i++ {
		acc.Index = *from + i
		nv += len(p.Run(propSeed(*seed, p.ID(), *from+i), *tier, acc))
	}
	ck := ""
	for _, k := range acc.SortedCounters() {
		ck += fmt.Sprintf("%s=%d;", k, acc.Counters[k])
	}
	fmt.Printf("%016x evals=%d steps=%d distinct=%d vios=%d counters=%016x\n", acc.FP, acc.Evals, acc.Steps, acc.DistinctTotal(), nv, core.HashString(ck))
	return 0
}

// ------------------------------------------------------------------ master

type knownFinding struct {
	Prop, Sig, Site, Text string
}

func loadKnown(path string) []knownFinding {
	f, err := os.Open(path)
	if err != nil {
		return nil
	}
	defer f.Close()
	var out []knownFinding
	sc := bufio.NewScanner(f)
	for sc.Scan() {
		line := strings.TrimSpace(sc.Text())
		if !strings.HasPrefix(line, "known:") {
			continue // comments and "fixed:" lines suppress nothing
		}
		kf := knownFinding{}
		rest := strings.Fields(strings.TrimPrefix(line, "known:"))
		var text []string
		for _, w := range rest {
			switch {
			case strings.HasPrefix(w, "property="):
				kf.Prop = strings.TrimPrefix(w, "property=")
			case strings.HasPrefix(w, "sig="):
				kf.Sig = strings.TrimPrefix(w, "sig=")
			case strings.HasPrefix(w, "site="):
				kf.Site = strings.ReplaceAll(strings.TrimPrefix(w, "site="), "_", " ") // '_' stands for a space
			default:
				text = append(text, w)
			}
		}
		kf.Text = strings.Join(text, " ")
		if kf.Prop != "" && kf.Sig != "" {
			out = append(out, kf)
		}
	}
	return out
}

func cmdRun(args []string) int {
	if len(args) < 1 {
		fatal2("usage: simcheck run <prop> ...")
	}
	fs := flag.NewFlagSet("run", flag.ExitOnError)
	tier := fs.String("tier", "quick", "")
	seed := fs.Uint64("seed", 1, "")
	workers := fs.Int("workers", runtime.NumCPU(), "")
	verif := fs.String("verif", "/verif", "")
	scratch := fs.String("scratch", "", "directory for worker output")
	selftest := fs.Int("selftest", -1, "number of determinism self-test processes (-1 = tier default)")
	fs.Parse(args[1:])
	p := props.Get(args[0])
	if p == nil {
		fatal2("unknown property " + args[0])
	}
	start := time.Now()
	if *scratch == "" {
		d, err := os.MkdirTemp("", "simcheck")
		if err != nil {
			fatal2(err.Error())
		}
		defer os.RemoveAll(d)
		*scratch = d
	}
	budget := 1.0
	if s := os.Getenv("VERIF_BUDGET"); s != "" {
		if f, err := strconv.ParseFloat(s, 64); err == nil && f > 0 {
			budget = f
		}
	}
	total := int(float64(p.Runs(*tier)) * budget)
	if total < 1 {
		total = 1
	}
	if *workers > total {
		*workers = total
	}
	capS := 100
	if *tier == "thorough" {
		capS = 3000
	}
	if s := os.Getenv("VERIF_CAP_S"); s != "" {
		if n, err := strconv.Atoi(s); err == nil {
			capS = n
		}
	}
	fmt.Printf("%s tier=%s seed=%d runs=%d workers=%d\n", p.ID(), *tier, *seed, total, *workers)
	self, _ := os.Executable()

	// ---- determinism self-test: the same run seeds in separate OS processes at GOMAXPROCS 1/4/16
	nSelf := *selftest
	if nSelf < 0 {
		nSelf = 6
		if *tier == "thorough" {
			nSelf = 30
		}
	}
	selfRuns := 3
	if *tier == "thorough" {
		selfRuns = 6
	}
	type stRes struct {
		out string
		err error
	}
	stCh := make(chan stRes, nSelf)
	for i := 0; i < nSelf; i++ {
		go func(i int) {
			procs := []int{1, 4, 16}[i%3]
			cmd := exec.Command(self, "fingerprint", p.ID(), "-tier", *tier, "-seed", fmt.Sprint(*seed), "-n", fmt.Sprint(selfRuns), "-from", fmt.Sprint(total/2), "-procs", fmt.Sprint(procs))
			o, err := cmd.Output()
			stCh <- stRes{strings.TrimSpace(string(o)), err}
		}(i)
	}

	// ---- workers: one OS process each, GOMAXPROCS=1
	type wres struct {
		i   int
		err error
		out []byte
	}
	ch := make(chan wres, *workers)
	for i := 0; i < *workers; i++ {
		go func(i int) {
			outf := filepath.Join(*scratch, fmt.Sprintf("w%d.json", i))
			cmd := exec.Command(self, "worker", p.ID(), "-tier", *tier, "-seed", fmt.Sprint(*seed),
				"-from", fmt.Sprint(i), "-stride", fmt.Sprint(*workers), "-total", fmt.Sprint(total), "-out", outf, "-cap", fmt.Sprint(capS), "-known", filepath.Join(*verif, "known_findings.txt"))
			var stderr bytes.Buffer
			cmd.Stderr = &stderr
			err := cmd.Run()
			b, rerr := os.ReadFile(outf)
			if err == nil && rerr != nil {
				err = rerr
			}
			if err != nil {
				err = fmt.Errorf("worker %d: %v\n%s", i, err, stderr.String())
			}
			ch <- wres{i, err, b}
		}(i)
	}
	acc := props.NewAcc()
	var vios []*core.Violation
	var notes []string
	knownSeen := map[string]int{}
	infra := ""
	outs := make([]*workerOut, *workers)
	for n := 0; n < *workers; n++ {
		r := <-ch
		var wo workerOut
		if len(r.out) > 0 {
			if err := json.Unmarshal(r.out, &wo); err != nil {
				infra += fmt.Sprintf("worker %d: bad output: %v\n", r.i, err)
				continue
			}
			outs[r.i] = &wo
		}
		if r.err != nil {
			infra += r.err.Error() + "\n"
		}
		if wo.Panic != "" {
			infra += fmt.Sprintf("worker %d: harness panic: %s\n", r.i, wo.Panic)
		}
	}
	for _, wo := range outs { // fixed order: evidence does not depend on completion order
		if wo == nil || wo.Acc == nil {
			continue
		}
		acc.Merge(wo.Acc)
		vios = append(vios, wo.Violations...)
		notes = append(notes, wo.Shrunk...)
		for k, n := range wo.KnownSeen {
			knownSeen[k] += n
		}
	}
	stFP := map[string]int{}
	for i := 0; i < nSelf; i++ {
		r := <-stCh
		if r.err != nil {
			infra += fmt.Sprintf("determinism self-test process failed: %v\n", r.err)
			continue
		}
		stFP[r.out]++
	}
	if len(stFP) > 1 {
		infra += fmt.Sprintf("SIMULATOR NOT DETERMINISTIC: %d different fingerprints for the same seeds: %v\n", len(stFP), stFP)
	}

	// ---- violations: replay each minimised case in a fresh process
	known := loadKnown(filepath.Join(*verif, "known_findings.txt"))
	exit := 0
	reported := map[string]int{}
	nViol := 0
	knownHit := map[string]bool{}
	os.MkdirAll(filepath.Join(*verif, "replays"), 0o755)
	for i, v := range vios {
		isKnown := matchKnown(known, v) != nil
		if isKnown && knownHit[matchKnown(known, v).key()] {
			continue
		}
		if !isKnown && (reported[v.Sig] >= 2 || nViol >= 6) {
			continue
		}
		rf := core.ReplayFile{Property: v.Prop, Signature: v.Sig, Detail: v.Detail, Seed: *seed, Tier: *tier, Shrunk: notes[i], Case: v.Case}
		b, _ := json.MarshalIndent(rf, "", " ")
		tmp := filepath.Join(*scratch, fmt.Sprintf("cand%d.json", i))
		os.WriteFile(tmp, b, 0o644)
		cmd := exec.Command(self, "replay", tmp)
		o, err := cmd.CombinedOutput()
		code := 0
		if ee, ok := err.(*exec.ExitError); ok {
			code = ee.ExitCode()
		} else if err != nil {
			code = 2
		}
		if code != 1 || !strings.Contains(string(o), "signature="+v.Sig+"\n") {
			infra += fmt.Sprintf("violation %s did not reproduce in a fresh process (exit %d): simulator bug\n%s\n", v.Sig, code, o)
			continue
		}
		// known finding? (reproduced above; the KNOWN-FINDING lines are printed below for every listed entry)
		if k := matchKnown(known, v); k != nil {
			knownHit[k.key()] = true
			continue
		}
		reported[v.Sig]++
		nViol++
		path := filepath.Join(*verif, "replays", fmt.Sprintf("%s-%d-%d.json", v.Prop, *seed, nViol))
		os.WriteFile(path, b, 0o644)
		fmt.Printf("violation: %s\n  %s\n", v.Sig, v.Detail)
		fmt.Printf("VIOLATION property=%s replay=%s\n", v.Prop, path)
		exit = 1
	}

	// ---- supplementary race-detector monitor (C13 only; not deterministic, not the deciding step)
	var raceEv map[string]interface{}
	if os.Getenv("SIMCHECK_RACEMON") != "" && p.ID() == "C13" {
		spec := core.RaceSpec{Seed: *seed, Goroutines: 6, Rounds: 3, Per: 3}
		if *tier == "thorough" {
			spec = core.RaceSpec{Seed: *seed, Goroutines: 8, Rounds: 8, Per: 4}
		}
		t0 := time.Now()
		sig, detail, err := runRaceMonitor(spec, *scratch)
		raceEv = map[string]interface{}{"ran": err == nil, "goroutines": spec.Goroutines, "rounds": spec.Rounds, "instances": spec.Goroutines * spec.Rounds * spec.Per,
			"wall_s": time.Since(t0).Seconds(), "finding": sig, "deterministic": false,
			"note": "real goroutines over the real bytebufferpool under the Go race detector; supplementary evidence for the data-race clause"}
		if err != nil {
			infra += fmt.Sprintf("race monitor: %v\n", err)
		} else if sig != "" {
			nViol++
			rf := core.ReplayFile{Property: "C13", Signature: sig, Detail: detail, Seed: *seed, Tier: *tier, Shrunk: "not minimised (race monitor)", RaceMonitor: &spec}
			b, _ := json.MarshalIndent(rf, "", " ")
			path := filepath.Join(*verif, "replays", fmt.Sprintf("C13-%d-race.json", *seed))
			os.WriteFile(path, b, 0o644)
			fmt.Printf("violation: %s\n  %s\n", sig, firstLines(detail, 12))
			fmt.Printf("VIOLATION property=C13 replay=%s\n", path)
			exit = 1
		}
	}

	// ---- simulated-clock arm (C08 only; deterministic; built by the newer toolchain because it needs testing/synctest)
	var timeEv map[string]interface{}
	if os.Getenv("SIMCHECK_TIMESIM") != "" && p.ID() == "C08" {
		spec := core.TimeSpec{Seed: *seed, Runs: 200, Only: -1}
		if *tier == "thorough" {
			spec.Runs = 4000
		}
		t0 := time.Now()
		tr, err := runTimeSim(spec)
		if err != nil {
			infra += fmt.Sprintf("simulated-clock arm: %v\n", err)
		} else {
			timeEv = map[string]interface{}{"ran": true, "files": tr.Files, "bubbles": tr.Bubbles, "simulated_seconds": tr.FakeSeconds, "source_calls": tr.Calls,
				"delayed_calls": tr.DelayedCalls, "delay_plans": tr.Plans, "unusable": tr.Unusable, "wall_s": time.Since(t0).Seconds(), "deterministic": true,
				"note": "every Read/Seek of the simulated source sleeps on the fake clock of a testing/synctest bubble (steady 1 ms..61 s per call, one stall of 30..180 min, jitter 0..2 s); the reader must return what it returns for the same fragmentation without delays"}
			if tr.Bubbles == 0 {
				infra += "simulated-clock arm: no bubble ran\n"
			}
			for n, v := range tr.Violations {
				if n >= 3 {
					break
				}
				nViol++
				one := core.TimeSpec{Seed: spec.Seed, Runs: spec.Runs, Only: v.Index}
				rf := core.ReplayFile{Property: "C08", Signature: v.Sig, Detail: v.Detail, Seed: *seed, Tier: *tier, Shrunk: "single index of the simulated-clock arm (the file itself is not minimised)", TimeSim: &one}
				b, _ := json.MarshalIndent(rf, "", " ")
				path := filepath.Join(*verif, "replays", fmt.Sprintf("C08-%d-time-%d.json", *seed, v.Index))
				os.MkdirAll(filepath.Join(*verif, "replays"), 0o755)
				os.WriteFile(path, b, 0o644)
				fmt.Printf("violation: %s\n  %s\n", v.Sig, firstLines(v.Detail, 12))
				fmt.Printf("VIOLATION property=C08 replay=%s\n", path)
				exit = 1
			}
		}
	}

	// ---- one KNOWN-FINDING line per listed finding of this property
	for _, k := range known {
		if k.Prop != p.ID() {
			continue
		}
		obs := "not reached by this run"
		if knownHit[k.key()] {
			obs = fmt.Sprintf("observed %d times in this run and reproduced in a fresh process", knownSeen[k.key()])
		}
		fmt.Printf("KNOWN-FINDING: property=%s %s [%s; %s]\n", k.Prop, k.Text, k.Sig, obs)
	}

	// ---- vacuity guards
	if acc.Runs > 0 && acc.Unusable*5 > acc.Runs {
		infra += fmt.Sprintf("cannot decide: %d of %d workloads have no usable fault-free baseline (round trip itself is broken; see C06)\n", acc.Unusable, acc.Runs)
	}
	var missing []string
	if *tier == "thorough" && exit == 0 && budget >= 1 && !acc.Truncated {
		for _, pr := range p.Probes() {
			if acc.Counters[pr] == 0 {
				missing = append(missing, pr)
			}
		}
		if len(missing) > 0 {
			infra += fmt.Sprintf("reach probes stuck at zero: %v\n", missing)
		}
	}

	// ---- evidence
	wall := time.Since(start).Seconds()
	counters := map[string]int{}
	for _, k := range acc.SortedCounters() {
		counters[k] = acc.Counters[k]
	}
	var samples []interface{}
	for _, s := range acc.Samples {
		samples = append(samples, s)
	}
	if len(samples) == 0 {
		samples = append(samples, "no case executed")
	}
	perHour := func(n int) float64 {
		if wall <= 0 {
			return 0
		}
		return float64(n) / wall * 3600
	}
	stList := []string{}
	for k, v := range stFP {
		stList = append(stList, fmt.Sprintf("%dx %s", v, k))
	}
	sort.Strings(stList)
	ev := map[string]interface{}{
		"property_id": p.ID(),
		"tier":        *tier,
		"seed":        *seed,
		"level":       p.Level(),
		"wall_s":      wall,
		"violations":  nViol,
		"assumptions": p.Assumptions(),
		"coverage": map[string]interface{}{
			"evaluations":                 acc.Evals,
			"distinct_nontrivial":         acc.DistinctTotal(),
			"rule":                        p.Rule(),
			"samples":                     samples,
			"exhaustive":                  false,
			"simulated_runs":              acc.Runs,
			"simulated_runs_per_hour":     perHour(acc.Runs),
			"cases_per_hour":              perHour(acc.Evals),
			"seeds":                       fmt.Sprintf("VERIF_SEED=%d; run i uses runseed = mix(seed, property, i), i in [0,%d)", *seed, total),
			"simulated_time":              fmt.Sprintf("%d simulated steps (seam events: sink writes, source reads/seeks, pool and scheduler events); the system has no clock", acc.Steps),
			"simulated_steps":             acc.Steps,
			"counters":                    counters,
			"baseline_unusable":           acc.Unusable,
			"truncated_by_wall_clock_cap": acc.Truncated,
			"probes_required":             p.Probes(),
			"probes_missing":              missing,
			"determinism_selftest": map[string]interface{}{
				"processes":    nSelf,
				"gomaxprocs":   []int{1, 4, 16},
				"runs_each":    selfRuns,
				"fingerprints": stList,
				"agree":        len(stFP) <= 1,
			},
			"known_findings_matched": len(knownHit),
			"components": map[string]interface{}{
				"real": []string{"github.com/parsyl/parquet (runtime, working tree)", "internal/rle", "internal/bitpack", "code generated at check time by the tree's cmd/parquetgen for every shape (flat, flatb, nested, nestedb, doc, rep3, person, kv, pair, opt4, wide, clash, bits and the re-ordered reader structs flatp, kvp, nestedp)", "apache/thrift compact protocol", "golang/snappy", "compress/gzip"},
				"stub": []string{"destination io.Writer (sim sink / sim disk)", "source io.ReadSeeker (sim source)", "github.com/valyala/bytebufferpool (simulator-owned pool; ByteBuffer logic copied from v1.0.0)", "goroutine scheduling of caller tasks (baton scheduler, C13)", "the clock (C08 simulated-clock arm only: fake clock of a testing/synctest bubble)", "the OS process and its environment (C13 fresh-process arm, C11 sandbox children: real processes, started and configured by the simulator)"},
			},
			"workers": *workers,
		},
	}
	if timeEv != nil {
		ev["coverage"].(map[string]interface{})["simulated_clock"] = timeEv
	}
	if raceEv != nil {
		ev["coverage"].(map[string]interface{})["race_monitor"] = raceEv
	}
	os.MkdirAll(filepath.Join(*verif, "evidence"), 0o755)
	eb, _ := json.MarshalIndent(ev, "", " ")
	if os.Getenv("VERIF_NO_EVIDENCE") == "" { // maintenance runs against scratch copies do not touch the evidence
		if err := os.WriteFile(filepath.Join(*verif, "evidence", p.ID()+".json"), eb, 0o644); err != nil {
			infra += err.Error() + "\n"
		}
	}
	fmt.Printf("%s: runs=%d cases=%d distinct_nontrivial=%d steps=%d unusable=%d violations=%d wall=%.1fs\n",
		p.ID(), acc.Runs, acc.Evals, acc.DistinctTotal(), acc.Steps, acc.Unusable, nViol, wall)
	if exit == 1 {
		return 1
	}
	if infra != "" {
		fmt.Fprintf(os.Stderr, "INFRASTRUCTURE: %s", infra)
		return 2
	}
	return 0
}

type timeViolation struct {
	Index  int    `json:"index"`
	Sig    string `json:"sig"`
	Detail string `json:"detail"`
}

type timeResult struct {
	Files        int             `json:"files"`
	Bubbles      int             `json:"bubbles"`
	FakeSeconds  float64         `json:"simulated_seconds"`
	Calls        int             `json:"source_calls"`
	DelayedCalls int             `json:"delayed_calls"`
	Plans        map[string]int  `json:"plans"`
	Unusable     int             `json:"unusable"`
	Violations   []timeViolation `json:"violations"`
}

// runTimeSim runs the fake-clock test binary named by SIMCHECK_TIMESIM.
func runTimeSim(spec core.TimeSpec) (*timeResult, error) {
	bin := os.Getenv("SIMCHECK_TIMESIM")
	if bin == "" {
		return nil, fmt.Errorf("SIMCHECK_TIMESIM is not set")
	}
	sb, _ := json.Marshal(spec)
	cmd := exec.Command(bin, "-test.run", "^TestSimulatedClock$", "-test.count=1", "-test.timeout", "40m")
	cmd.Env = append(os.Environ(), "TIMESIM_SPEC="+string(sb), "GOMAXPROCS=2")
	out, err := cmd.CombinedOutput()
	for _, line := range strings.Split(string(out), "\n") {
		if strings.HasPrefix(line, "TIMESIM-RESULT ") {
			var tr timeResult
			if e := json.Unmarshal([]byte(strings.TrimPrefix(line, "TIMESIM-RESULT ")), &tr); e != nil {
				return nil, e
			}
			return &tr, nil
		}
	}
	return nil, fmt.Errorf("fake-clock binary gave no result (%v): %s", err, firstLines(string(out), 20))
}

// runRaceMonitor runs the -race monitor binary named by SIMCHECK_RACEMON.
// It returns a signature ("" when nothing was found) and the report.
func runRaceMonitor(spec core.RaceSpec, scratch string) (string, string, error) {
	bin := os.Getenv("SIMCHECK_RACEMON")
	if bin == "" {
		return "", "", fmt.Errorf("SIMCHECK_RACEMON is not set")
	}
	cmd := exec.Command(bin, "-seed", fmt.Sprint(spec.Seed), "-goroutines", fmt.Sprint(spec.Goroutines), "-rounds", fmt.Sprint(spec.Rounds), "-per", fmt.Sprint(spec.Per))
	cmd.Env = append(os.Environ(), "GORACE=exitcode=66 halt_on_error=0")
	done := make(chan struct{})
	var out []byte
	var err error
	go func() { out, err = cmd.CombinedOutput(); close(done) }()
	select {
	case <-done:
	case <-time.After(15 * time.Minute):
		if cmd.Process != nil {
			cmd.Process.Kill()
		}
		<-done
		return "", "", fmt.Errorf("race monitor timed out")
	}
	code := 0
	if ee, ok := err.(*exec.ExitError); ok {
		code = ee.ExitCode()
	} else if err != nil {
		return "", "", err
	}
	text := string(out)
	switch {
	case strings.Contains(text, "WARNING: DATA RACE"):
		return "C13/data-race", firstLines(text, 60), nil
	case code == 1 && strings.Contains(text, "INTERFERENCE"):
		return "C13/parallel-interference", firstLines(text, 20), nil
	case code == 0:
		return "", text, nil
	}
	return "", "", fmt.Errorf("race monitor exited %d: %s", code, firstLines(text, 20))
}

func firstLines(s string, n int) string {
	lines := strings.Split(s, "\n")
	if len(lines) > n {
		lines = lines[:n]
	}
	return strings.Join(lines, "\n")
}

// cmdSolo is the child of the C13 fresh-process arm: it executes one order of
// instances in this fresh process and prints their output digests.
func cmdSolo() int {
	// GOMAXPROCS, GOGC and TZ come from the environment the parent chose for this process lifetime
	var c core.Case
	dec := json.NewDecoder(os.Stdin)
	if err := dec.Decode(&c); err != nil {
		fatal2(err.Error())
	}
	rs, err := props.RunSolo(&c)
	if err != nil {
		fatal2(err.Error())
	}
	b, _ := json.Marshal(rs)
	os.Stdout.Write(b)
	return 0
}

package core

import (
	"fmt"
	"io"
	"runtime"
	"strings"
)

// APIResult is the outcome of one API call of a writer history.
type APIResult struct {
	API   string // New | Write#n | Close
	Err   string // "" when nil
	IsErr bool
	Panic string
}

// WriteResult is what executing a writer history produced.
type WriteResult struct {
	Sink    *Sink
	APIs    []APIResult
	Stopped bool // the client stopped early because a call failed or panicked
	// Model side (list of batches): filled by ExecWriter from the ops actually issued.
	Batches [][]interface{}
	Pending int
	Closed  bool
	W       Writer // the instance (nil when the constructor failed)
}

// CloseAfterFailure does what `defer w.Close()` does in a caller whose Write
// just failed: it calls Close once more and reports a panic, if any. The error
// Close returns is not inspected.
func (r *WriteResult) CloseAfterFailure() (called bool, pan string) {
	f := r.Failed()
	if f == nil || r.W == nil || f.Panic != "" || !strings.HasPrefix(f.API, "Write") {
		return false, ""
	}
	r.Sink.CurAPI = "Close(deferred)"
	_, pan, _ = guard(r.W.Close)
	return true, pan
}

// Failed returns the first API call that returned an error or panicked, or nil.
func (r *WriteResult) Failed() *APIResult {
	for i := range r.APIs {
		if r.APIs[i].IsErr || r.APIs[i].Panic != "" {
			return &r.APIs[i]
		}
	}
	return nil
}

func panicString(p interface{}) string {
	var pcs [32]uintptr
	n := runtime.Callers(3, pcs[:])
	frames := runtime.CallersFrames(pcs[:n])
	var where []string
	for {
		f, more := frames.Next()
		if !strings.HasPrefix(f.Function, "runtime.") && !strings.Contains(f.Function, "verifsim/core.") {
			where = append(where, fmt.Sprintf("%s:%d", f.Function, f.Line))
		}
		if !more || len(where) >= 4 {
			break
		}
	}
	return fmt.Sprintf("%v @ %s", p, strings.Join(where, " < "))
}

// stepCap is panicked by seams when a run exceeds its step budget.
type stepCap struct{}

func (stepCap) Error() string { return "sim: step cap exceeded" }

func guard(f func() error) (err error, pan string, capped bool) {
	defer func() {
		if p := recover(); p != nil {
			if _, ok := p.(stepCap); ok {
				capped = true
				return
			}
			pan = panicString(p)
		}
	}()
	err = f()
	return
}

// ExecWriter runs a writer history against sink. The client behaves like a
// real caller: it stops at the first API call that fails.
func ExecWriter(spec *WriterSpec, sink *Sink) *WriteResult { return ExecWriterKind(spec, sink, "w") }

// ExecWriterKind is ExecWriter with the destination presented as the given
// sink kind ("w" or "wx").
func ExecWriterKind(spec *WriterSpec, sink *Sink, kind string) *WriteResult {
	return execWriter(spec, sink, kind, false)
}

// ExecWriterShared is ExecWriter for a caller that hands the SAME record values
// to the writer that other callers hand to theirs (no private copy per Add):
// records are inputs, and sharing them read-only between instances is
// ordinary use.
func ExecWriterShared(spec *WriterSpec, sink *Sink) *WriteResult {
	return execWriter(spec, sink, "w", true)
}

func execWriter(spec *WriterSpec, sink *Sink, kind string, shared bool) *WriteResult {
	sh := GetShape(spec.Shape)
	res := &WriteResult{Sink: sink}
	var w Writer
	sink.CurAPI = "New"
	err, pan, _ := guard(func() error {
		var e error
		w, e = sh.NewWriter(sink.AsWriter(kind), spec.Page, spec.Codec)
		return e
	})
	res.APIs = append(res.APIs, mkAPI("New", err, pan))
	if err != nil || pan != "" || w == nil {
		res.Stopped = true
		return res
	}
	res.W = w
	var pending []interface{}
	nWrite := 0
	for i := range spec.Ops {
		op := &spec.Ops[i]
		if sink.Yield != nil {
			sink.Yield() // API-call boundary: a scheduling point between two calls of one instance
		}
		switch op.K {
		case "add":
			rec := op.Val(sh)
			sink.CurAPI = "Add"
			_, pan, _ := guard(func() error {
				if shared {
					w.Add(rec)
				} else {
					w.Add(CopyRec(rec))
				}
				return nil
			})
			if pan != "" {
				res.APIs = append(res.APIs, mkAPI("Add", nil, pan))
				res.Stopped = true
				return res
			}
			pending = append(pending, rec)
		case "write":
			nWrite++
			api := fmt.Sprintf("Write#%d", nWrite)
			sink.CurAPI = api
			err, pan, _ := guard(w.Write)
			res.APIs = append(res.APIs, mkAPI(api, err, pan))
			if err != nil || pan != "" {
				res.Stopped = true
				return res
			}
			if len(pending) > 0 {
				res.Batches = append(res.Batches, pending)
				pending = nil
			}
		case "close":
			sink.CurAPI = "Close"
			err, pan, _ := guard(w.Close)
			res.APIs = append(res.APIs, mkAPI("Close", err, pan))
			res.Pending = len(pending)
			if err != nil || pan != "" {
				res.Stopped = true
				return res
			}
			res.Closed = true
			return res
		default:
			panic("unknown op " + op.K)
		}
	}
	res.Pending = len(pending)
	return res
}

func mkAPI(api string, err error, pan string) APIResult {
	r := APIResult{API: api, Panic: pan}
	if err != nil {
		r.IsErr = true
		r.Err = err.Error()
	}
	return r
}

// ReadResult is what the documented client loop observed.
type ReadResult struct {
	CtorErr  string
	CtorFail bool
	Rows     int64 // Rows() after a successful constructor
	Recs     []interface{}
	FinalErr string
	Failed   bool // Error() != nil after the loop
	Panic    string
	PanicAPI string
	Runaway  bool // more rows than the limit were delivered without an error
	Hang     bool // step cap exceeded
}

// ErrText is the error the reader reported (constructor or Error()).
func (r *ReadResult) ErrText() string {
	if r.CtorFail {
		return "constructor: " + r.CtorErr
	}
	return "Error(): " + r.FinalErr
}

// Reported is true when the reader reported an error to its caller.
func (r *ReadResult) Reported() bool { return r.CtorFail || r.Failed }

// ExecReader runs the documented client loop:
//
//	r, err := NewParquetReader(src); for r.Next() { r.Scan(&x) }; r.Error()
//
// Next is never called again after it returned false. limit bounds the number
// of rows accepted before the run counts as a run-away.
func ExecReader(shape string, rs io.ReadSeeker, limit int, setAPI func(string)) *ReadResult {
	return ExecReaderMode(shape, rs, limit, setAPI, "")
}

// ExecReaderMode is ExecReader with a client that uses the API differently:
//
//	""/"all"   Scan after every Next (the documented loop)
//	"count"    Next without Scan (a caller that only counts rows)
//	"alt"      Scan only every other row
//	"abandon"  stop after half of the rows and never look at the reader again
//	"errcheck" the documented loop, with Error() also called before the loop and after every row
//
// All of them are legal call histories of one instance; what they leave behind
// in the process must not matter to other instances.
func ExecReaderMode(shape string, rs io.ReadSeeker, limit int, setAPI func(string), mode string) *ReadResult {
	sh := GetShape(shape)
	res := &ReadResult{}
	if setAPI == nil {
		setAPI = func(string) {}
	}
	var r Reader
	setAPI("New")
	err, pan, capped := guard(func() error {
		var e error
		r, e = sh.NewReader(rs)
		return e
	})
	if capped {
		res.Hang = true
		return res
	}
	if pan != "" {
		res.Panic, res.PanicAPI = pan, "New"
		return res
	}
	if err != nil {
		res.CtorFail = true
		res.CtorErr = err.Error()
		return res
	}
	if r == nil {
		res.CtorFail = true
		res.CtorErr = "nil reader"
		return res
	}
	cur := "Next"
	setAPI(cur)
	n := 0
	_, pan, capped = guard(func() error {
		res.Rows = r.Rows()
		if mode == "errcheck" {
			_ = r.Error()
		}
		for {
			cur = "Next"
			setAPI(cur) // also an API-call boundary (scheduling point in C13)
			if !r.Next() {
				break
			}
			if len(res.Recs) >= limit {
				res.Runaway = true
				return nil
			}
			n++
			if mode == "count" || (mode == "alt" && n%2 == 0) {
				res.Recs = append(res.Recs, nil) // row seen, not scanned
				continue
			}
			cur = "Scan"
			setAPI(cur)
			res.Recs = append(res.Recs, r.Scan())
			if mode == "errcheck" {
				_ = r.Error()
			}
			if mode == "abandon" && int64(n) >= (res.Rows+1)/2 {
				return nil
			}
		}
		if e := r.Error(); e != nil {
			res.Failed = true
			res.FinalErr = e.Error()
		}
		return nil
	})
	if capped {
		res.Hang = true
	}
	if pan != "" {
		res.Panic, res.PanicAPI = pan, cur
	}
	return res
}

// EqualRecs compares two record lists.
func EqualRecs(a, b []interface{}) (bool, string) {
	if len(a) != len(b) {
		return false, fmt.Sprintf("row count %d != %d", len(a), len(b))
	}
	for i := range a {
		if !EqualRec(a[i], b[i]) {
			return false, fmt.Sprintf("row %d differs: got %s want %s", i, RecJSON(a[i]), RecJSON(b[i]))
		}
	}
	return true, ""
}

// Flatten concatenates batches.
func Flatten(b [][]interface{}) []interface{} {
	var out []interface{}
	for _, x := range b {
		out = append(out, x...)
	}
	return out
}

package core

import (
	"reflect"
)

// HistOpts controls history generation.
type HistOpts struct {
	Shapes       []string
	PageMin      int
	PageMax      int
	BigPagePct   int // percent of runs that use a large page size (100) instead
	MaxBatches   int
	MinBatches   int
	EmptyWrites  bool // allow Write with nothing pending (C06)
	PendingClose bool // allow records pending at Close (C06)
	MaxOps       int
	Profile      ValueProfile
	NoClose      bool
	// LargePct: percent of histories drawn from the "large" class instead: page
	// size 100..1200, batches up to 3 pages, up to 4000 records, sometimes long
	// strings. It reaches what small files cannot: level runs beyond 63
	// bit-packed groups, snappy blocks beyond 64 KiB, buffer growth.
	LargePct int
	// ManyPct: percent of histories drawn from the "many row groups" class
	// instead: 10..ManyMax batches of 1..3 records (slice growth, accounting
	// that only breaks beyond some count).
	ManyPct int
	ManyMax int
	// HugePct: percent of histories of the "huge value" class: a short history
	// (at most 6 records) in which one string in five is 66000..140000 bytes, so
	// single page bodies exceed 64 KiB without many records.
	HugePct int
	// BoundaryPct: PER MILLE of histories of the "boundary" class: the page size is
	// one of the sizes at which varints and run headers change length (127, 128,
	// 129, 8191, 8192, 8193, 16383, 16384), batches are exactly one or two
	// pages (or one page plus one record), and every pointer of a record is
	// nil, or none is, so that level runs are exactly as long as the page.
	BoundaryPct int
	// GiantPct: PER MILLE of histories of the "giant page" class: one batch of
	// 11..16 records whose string column holds 100 000..140 000 bytes each, in one
	// page: a single page body of 1.1-2.2 MiB (beyond any 1 MiB block or limit),
	// optionally with a small batch before and after it. Shapes kv (the string is
	// the last column) and flat.
	GiantPct int
	// MillionPer100k: per 100 000 histories, the "million rows" class: shape bits
	// (bool columns only), page size 524288, 600000 or 1048576, one batch of
	// exactly one page (sometimes plus three records): single bool page bodies
	// of 64 KiB and more, level runs of half a million entries.
	MillionPer100k int
	// NoEdge switches off the edge-value class (on by default: in 15 percent of
	// the histories a quarter of the scalars are edge values: min/max integers,
	// varint boundaries, NaN, infinities, negative zero, empty strings, strings
	// with NUL or invalid UTF-8, strings that spell the Parquet magic or the
	// templates' "__#NIL#__" sentinel). The tree round-trips all of them.
	NoEdge bool
}

// GenHistory draws a writer history from the batch-shape grammar: batch sizes
// are biased to the alignments that matter (0, 1, page-1, page, page+1,
// 2*page, 2*page+1, 3*page+2, random).
func GenHistory(r *Rng, o HistOpts) *WriterSpec {
	w := &WriterSpec{}
	w.Shape = o.Shapes[r.Intn(len(o.Shapes))]
	if w.Shape == "wide" && len(o.Shapes) > 1 && r.Chance(5, 6) {
		// 70 columns cost several times an ordinary shape: a sixth of its uniform share
		for w.Shape == "wide" {
			w.Shape = o.Shapes[r.Intn(len(o.Shapes))]
		}
	}
	if w.Shape == "wide" {
		// ordinary, short histories only: the heavy classes with 70 columns cost seconds per case
		o.LargePct, o.ManyPct, o.HugePct, o.BoundaryPct, o.BigPagePct = 0, 0, 0, 0, 0
		if o.MaxOps > 12 {
			o.MaxOps = 12
		}
		if o.MaxBatches > 2 {
			o.MaxBatches = 2
		}
	}
	w.Codec = Codecs[r.Pick(2, 2, 1)] // gzip costs ~0.5 ms per page (flate state allocation)
	w.Page = r.Range(o.PageMin, o.PageMax)
	if o.BigPagePct > 0 && r.Intn(100) < o.BigPagePct {
		w.Page = 100
	}
	if o.LargePct > 0 && r.Intn(100) < o.LargePct {
		w.Page = r.Range(100, 1200)
		if r.Chance(1, 4) {
			// the documented defaults (1000 records per page, snappy): the adapter then passes no options at all
			w.Page, w.Codec = 1000, "snappy"
		}
		o.MaxOps = 4000
		if o.MaxBatches > 3 {
			o.MaxBatches = 3
		}
		if o.MinBatches < 1 {
			o.MinBatches = 1
		}
		if r.Chance(1, 3) {
			o.Profile.MaxStr = 200
		}
		w.Large = true
	}
	if o.BoundaryPct > 0 && r.Intn(1000) < o.BoundaryPct {
		return genBoundary(r, o)
	}
	if o.MillionPer100k > 0 && r.Intn(100000) < o.MillionPer100k {
		return genMillion(r, o)
	}
	if o.GiantPct > 0 && r.Intn(1000) < o.GiantPct {
		return genGiant(r, o)
	}
	if !o.NoEdge && r.Intn(100) < 15 {
		o.Profile.EdgePct = 25
		w.Edge = true
	}
	if o.HugePct > 0 && !w.Large && r.Intn(100) < o.HugePct {
		w.Huge = true
		o.Profile.HugePct = 20
		o.ManyPct = 0
		if o.MaxOps > 6 {
			o.MaxOps = 6
		}
		if o.MaxBatches > 2 {
			o.MaxBatches = 2
		}
		if o.MinBatches < 1 {
			o.MinBatches = 1
		}
	}
	sh := GetShape(w.Shape)
	nb := r.Range(o.MinBatches, o.MaxBatches)
	many := false
	if o.ManyPct > 0 && !w.Large && r.Intn(100) < o.ManyPct {
		many = true
		w.Many = true
		mm := o.ManyMax
		if mm < 10 {
			mm = 80
		}
		nb = r.Range(10, mm)
		if mm > 200 {
			nb = r.Range(mm-60, mm) // the huge-footer variant wants the upper end
		}
		o.MaxOps = 3 * mm
		w.Page = r.Range(1, 4)
	}
	adds := 0
	size := func() int {
		p := w.Page
		var n int
		switch r.Pick(3, 3, 3, 3, 2, 2, 2, 4) {
		case 0:
			n = 1
		case 1:
			n = p - 1
		case 2:
			n = p
		case 3:
			n = p + 1
		case 4:
			n = 2 * p
		case 5:
			n = 2*p + 1
		case 6:
			n = 3*p + 2
		default:
			n = r.Range(1, 5*p)
		}
		if n < 1 {
			n = 1
		}
		if many {
			n = r.Range(1, 3)
		}
		return n
	}
	addN := func(n int) {
		for i := 0; i < n && adds < o.MaxOps; i++ {
			w.Ops = append(w.Ops, AddOp(GenRec(r, sh.Type, o.Profile)))
			adds++
		}
	}
	for b := 0; b < nb; b++ {
		if o.EmptyWrites && r.Chance(1, 4) {
			// one or two Writes with nothing pending
			w.Ops = append(w.Ops, WriteOp())
			if r.Chance(1, 3) {
				w.Ops = append(w.Ops, WriteOp())
			}
		}
		before := adds
		addN(size())
		if adds > before {
			w.Ops = append(w.Ops, WriteOp())
		}
	}
	if o.EmptyWrites && r.Chance(1, 4) {
		w.Ops = append(w.Ops, WriteOp())
	}
	if o.PendingClose && r.Chance(1, 3) {
		switch r.Intn(4) {
		case 0:
			addN(1)
		case 1:
			addN(w.Page)
		case 2:
			addN(w.Page + 1)
		default:
			addN(r.Range(1, 2*w.Page))
		}
	}
	if !o.NoClose {
		w.Ops = append(w.Ops, CloseOp())
	}
	return w
}

// Stats of a history (for probes and non-triviality rules).
type HistStats struct {
	Adds, Writes       int
	EmptyWrites        int
	EmptyFirst         bool // an empty Write before any Add
	EmptyBetween       bool // an empty Write between two non-empty batches
	EmptyConsecutive   bool // two consecutive empty Writes
	ExactThenEmpty     bool // a batch of exactly k*page followed by an empty Write
	PendingAtClose     int
	NonEmptyBatches    int
	MaxChain           int // max pages per column in a batch (ceil(batch/page))
	NoBatchAtAll       bool
	BatchGEPage        bool
	PendingWithBatches bool
	PendingNoBatches   bool
}

func (w *WriterSpec) Stats() HistStats {
	var s HistStats
	pending := 0
	lastEmpty := false
	lastBatch := -1
	seenNonEmpty := false
	emptySinceBatch := false
	for _, o := range w.Ops {
		switch o.K {
		case "add":
			s.Adds++
			pending++
			lastEmpty = false
		case "write":
			s.Writes++
			if pending == 0 {
				s.EmptyWrites++
				if s.Adds == 0 {
					s.EmptyFirst = true
				}
				if lastEmpty {
					s.EmptyConsecutive = true
				}
				if lastBatch > 0 && lastBatch%w.Page == 0 && !lastEmpty {
					s.ExactThenEmpty = true
				}
				if seenNonEmpty {
					emptySinceBatch = true
				}
				lastEmpty = true
			} else {
				if emptySinceBatch {
					s.EmptyBetween = true
				}
				emptySinceBatch = false
				seenNonEmpty = true
				s.NonEmptyBatches++
				chain := (pending + w.Page - 1) / w.Page
				if chain > s.MaxChain {
					s.MaxChain = chain
				}
				if pending >= w.Page {
					s.BatchGEPage = true
				}
				lastBatch = pending
				pending = 0
				lastEmpty = false
			}
		case "close":
		}
	}
	s.PendingAtClose = pending
	s.NoBatchAtAll = s.NonEmptyBatches == 0
	s.PendingWithBatches = pending > 0 && s.NonEmptyBatches > 0
	s.PendingNoBatches = pending > 0 && s.NonEmptyBatches == 0
	return s
}

// ---------------------------------------------------------------- shrinking

// Minimize greedily applies candidate simplifications while stillFails holds.
// It re-executes at most budget candidates and returns the smallest case
// found and the number of executions used.
func Minimize(c *Case, candidates func(*Case) []*Case, stillFails func(*Case) bool, budget int) (*Case, int) {
	used := 0
	cur := c
	for {
		progress := false
		for _, cand := range candidates(cur) {
			if used >= budget {
				return cur, used
			}
			used++
			if stillFails(cand) {
				cur = cand
				progress = true
				break
			}
		}
		if !progress {
			return cur, used
		}
	}
}

// ShrinkWriter proposes simpler variants of a writer spec: drop chunks of ops
// (never the final close), zero records, lower the page size, simpler codec.
func ShrinkWriter(w *WriterSpec) []*WriterSpec {
	var out []*WriterSpec
	clone := func() *WriterSpec {
		n := *w
		n.Ops = append([]Op(nil), w.Ops...)
		return &n
	}
	body := len(w.Ops)
	if body > 0 && w.Ops[body-1].K == "close" {
		body--
	}
	// drop chunks: halves, quarters, ..., singles - but never more than a few
	// hundred candidates (each holds a copy of the op list; a history of 16 000
	// operations would otherwise cost gigabytes)
	minChunk := 1
	if body > 256 {
		minChunk = body / 128
	}
	for chunk := body / 2; chunk >= minChunk && chunk >= 1; chunk /= 2 {
		for start := 0; start+chunk <= body && len(out) < 300; start += chunk {
			n := clone()
			n.Ops = append(append([]Op(nil), w.Ops[:start]...), w.Ops[start+chunk:]...)
			out = append(out, n)
		}
		if chunk == 1 {
			break
		}
	}
	if w.Codec != "uncompressed" {
		n := clone()
		n.Codec = "uncompressed"
		out = append(out, n)
	}
	if w.Page > 1 {
		n := clone()
		n.Page = w.Page - 1
		out = append(out, n)
		if w.Page > 2 {
			n := clone()
			n.Page = 1
			out = append(out, n)
		}
	}
	// zero all records at once, then one by one
	sh := GetShape(w.Shape)
	zero := RecJSON(reflect.New(sh.Type).Elem().Interface())
	allZero := true
	for _, o := range w.Ops {
		if o.K == "add" && string(o.Rec) != string(zero) {
			allZero = false
		}
	}
	if !allZero {
		n := clone()
		for i := range n.Ops {
			if n.Ops[i].K == "add" {
				n.Ops[i] = Op{K: "add", Rec: zero}
			}
		}
		out = append(out, n)
		cnt := 0
		for i := range w.Ops {
			if body > 2000 {
				break // zeroing single records of a huge history is not worth a copy each
			}
			if w.Ops[i].K == "add" && string(w.Ops[i].Rec) != string(zero) {
				n := clone()
				n.Ops[i] = Op{K: "add", Rec: zero}
				out = append(out, n)
				cnt++
				if cnt >= 24 {
					break
				}
			}
		}
	}
	return out
}

// genBoundary draws a history of the boundary class (see HistOpts.BoundaryPct).
// genMillion: see HistOpts.MillionPer100k.
func genMillion(r *Rng, o HistOpts) *WriterSpec {
	w := &WriterSpec{Shape: "bits", Million: true, Large: true}
	w.Codec = Codecs[r.Pick(3, 2, 1)]
	w.Page = []int{524288, 600000, 1 << 20}[r.Pick(3, 2, 1)]
	sh := GetShape("bits")
	// eight distinct records, cycled by a seeded pattern (one encoded copy each)
	var ops []Op
	for i := 0; i < 8; i++ {
		ops = append(ops, AddOp(GenRec(r, sh.Type, o.Profile)))
	}
	n := w.Page
	if r.Chance(1, 3) {
		n += 3
	}
	w.Ops = make([]Op, 0, n+2)
	for i := 0; i < n; i++ {
		w.Ops = append(w.Ops, ops[r.Intn(8)])
	}
	w.Ops = append(w.Ops, WriteOp())
	if !o.NoClose {
		w.Ops = append(w.Ops, CloseOp())
	}
	return w
}

// genGiant: see HistOpts.GiantPct.
func genGiant(r *Rng, o HistOpts) *WriterSpec {
	w := &WriterSpec{Giant: true, Huge: true}
	field := "Body"
	w.Shape = "kv"
	if r.Chance(1, 3) {
		w.Shape, field = "flat", "S"
	}
	w.Codec = Codecs[r.Pick(3, 3, 1)]
	w.Page = r.Range(16, 64)
	sh := GetShape(w.Shape)
	small := func() {
		for i, n := 0, r.Range(1, 3); i < n; i++ {
			w.Ops = append(w.Ops, AddOp(GenRec(r, sh.Type, o.Profile)))
		}
		w.Ops = append(w.Ops, WriteOp())
	}
	if r.Chance(1, 3) {
		small()
	}
	for i, n := 0, r.Range(11, 16); i < n; i++ {
		b := make([]byte, r.Range(100000, 140000))
		for j := range b {
			b[j] = byte('a' + r.Intn(26))
		}
		w.Ops = append(w.Ops, AddOp(WithString(GenRec(r, sh.Type, o.Profile), field, string(b))))
	}
	w.Ops = append(w.Ops, WriteOp())
	if r.Chance(1, 3) {
		small()
	}
	if !o.NoClose {
		w.Ops = append(w.Ops, CloseOp())
	}
	return w
}

func genBoundary(r *Rng, o HistOpts) *WriterSpec {
	w := &WriterSpec{Boundary: true, Large: true}
	w.Shape = o.Shapes[r.Intn(len(o.Shapes))]
	for w.Shape == "wide" && len(o.Shapes) > 1 {
		w.Shape = o.Shapes[r.Intn(len(o.Shapes))]
	}
	w.Codec = Codecs[r.Pick(2, 2, 1)]
	sizes := []int{127, 128, 129, 8191, 8192, 8193, 16383, 16384}
	w.Page = sizes[r.Intn(len(sizes))]
	sh := GetShape(w.Shape)
	prof := o.Profile
	prof.MaxList = 1
	switch r.Intn(3) {
	case 0:
		prof.NilChance = 0
	case 1:
		prof.NilChance = 100
	}
	n := w.Page
	switch r.Intn(4) {
	case 0:
		n = 2 * w.Page
	case 1:
		n = w.Page + 1
	}
	// one record drawn once and added n times keeps the cost of generation low
	// and makes every level run as long as it can be
	rec := GenRec(r, sh.Type, prof)
	if r.Chance(1, 3) {
		rec = reflect.New(sh.Type).Elem().Interface() // the zero record: thousands of zero bytes in a row when uncompressed
	}
	op := AddOp(rec)
	for i := 0; i < n; i++ {
		if i%64 == 63 && r.Chance(1, 8) {
			op = AddOp(GenRec(r, sh.Type, prof))
		}
		w.Ops = append(w.Ops, op)
	}
	w.Ops = append(w.Ops, WriteOp())
	if r.Chance(1, 2) {
		w.Ops = append(w.Ops, AddOp(GenRec(r, sh.Type, prof)), WriteOp())
	}
	if !o.NoClose {
		w.Ops = append(w.Ops, CloseOp())
	}
	return w
}

package core

import (
	"fmt"
)

// Baton-passing scheduler: every task is a goroutine, but only the goroutine
// holding the baton runs; a scheduling point parks the caller and hands the
// baton back to the scheduler, which picks the next task from the case's
// schedule. Real goroutines are used as coroutines only - who runs is never
// decided by the Go runtime.

type yieldEv struct {
	op   string
	done bool
}

type schedTask struct {
	fn     func()
	resume chan struct{}
	done   bool
	steps  int
}

// Sched executes tasks under a seeded policy or an explicit schedule.
type Sched struct {
	spec     *SchedSpec
	rng      *Rng
	tasks    []*schedTask
	cur      int
	yielded  chan yieldEv
	Executed []Segment
	Steps    int
	MaxSteps int
	capped   bool
	// OnSwitch is called when the baton moves from one task to another.
	OnSwitch func(from, to int)
	Switches int
	// explicit-schedule cursor
	segIdx, segLeft int
	// pct
	prio    []int
	changes map[int]bool
	lastOp  string
}

func NewSched(spec *SchedSpec, fns []func()) *Sched {
	s := &Sched{spec: spec, rng: NewRng(spec.Seed), yielded: make(chan yieldEv), cur: -1}
	for _, f := range fns {
		s.tasks = append(s.tasks, &schedTask{fn: f, resume: make(chan struct{})})
	}
	if spec.Policy == "pct" {
		n := len(fns)
		s.prio = make([]int, n)
		for i := range s.prio {
			s.prio[i] = i + 1
		}
		for i := n - 1; i > 0; i-- {
			j := s.rng.Intn(i + 1)
			s.prio[i], s.prio[j] = s.prio[j], s.prio[i]
		}
		s.changes = map[int]bool{}
		d := spec.Arg
		if d < 1 {
			d = 1
		}
		for i := 0; i < d-1; i++ {
			s.changes[1+s.rng.Intn(4000)] = true
		}
	}
	if spec.Policy == "explicit" && len(spec.Explicit) > 0 {
		s.segLeft = spec.Explicit[0].Steps
	}
	return s
}

// Cur is the id of the task that holds the baton.
func (s *Sched) Cur() int { return s.cur }

// Yield is a scheduling point; it is called by the running task.
func (s *Sched) Yield(op string) {
	if s.cur < 0 {
		return // not inside a scheduled phase
	}
	t := s.tasks[s.cur]
	if s.capped {
		panic(stepCap{})
	}
	s.yielded <- yieldEv{op: op}
	<-t.resume
	if s.capped {
		panic(stepCap{})
	}
}

func (s *Sched) runnable() []int {
	var out []int
	for i, t := range s.tasks {
		if !t.done {
			out = append(out, i)
		}
	}
	return out
}

func (s *Sched) other(run []int) int {
	var o []int
	for _, i := range run {
		if i != s.cur {
			o = append(o, i)
		}
	}
	if len(o) == 0 {
		return run[0]
	}
	return o[s.rng.Intn(len(o))]
}

func (s *Sched) pick() int {
	run := s.runnable()
	curOK := s.cur >= 0 && !s.tasks[s.cur].done
	switch s.spec.Policy {
	case "explicit":
		for s.segIdx < len(s.spec.Explicit) {
			seg := s.spec.Explicit[s.segIdx]
			if s.segLeft > 0 && seg.Task >= 0 && seg.Task < len(s.tasks) && !s.tasks[seg.Task].done {
				s.segLeft--
				return seg.Task
			}
			s.segIdx++
			if s.segIdx < len(s.spec.Explicit) {
				s.segLeft = s.spec.Explicit[s.segIdx].Steps
			}
		}
		return run[0] // schedule exhausted: finish the remaining tasks in order
	case "sticky":
		if curOK && s.rng.Intn(100) >= s.spec.Arg {
			return s.cur
		}
		return run[s.rng.Intn(len(run))]
	case "roundrobin":
		q := s.spec.Arg
		if q < 1 {
			q = 1
		}
		if curOK && s.tasks[s.cur].steps%q != 0 {
			return s.cur
		}
		for _, i := range run {
			if i > s.cur {
				return i
			}
		}
		return run[0]
	case "onput":
		if curOK && s.lastOp != "Put" {
			return s.cur
		}
		return s.other(run)
	case "onget":
		if curOK && s.lastOp != "Get" {
			return s.cur
		}
		return s.other(run)
	case "pct":
		if s.changes[s.Steps] && curOK {
			min := s.prio[0]
			for _, p := range s.prio {
				if p < min {
					min = p
				}
			}
			s.prio[s.cur] = min - 1
		}
		best := run[0]
		for _, i := range run {
			if s.prio[i] > s.prio[best] {
				best = i
			}
		}
		return best
	default: // uniform
		return run[s.rng.Intn(len(run))]
	}
}

// Run executes all tasks to completion (or until MaxSteps) and returns false
// when the step cap was hit.
func (s *Sched) Run() bool {
	for i, t := range s.tasks {
		i, t := i, t
		go func() {
			<-t.resume
			func() {
				defer func() {
					if p := recover(); p != nil {
						if _, ok := p.(stepCap); !ok {
							panic(fmt.Sprintf("task %d: unguarded panic: %v", i, p))
						}
					}
				}()
				t.fn()
			}()
			s.yielded <- yieldEv{done: true}
		}()
	}
	remaining := len(s.tasks)
	for remaining > 0 {
		next := s.pick()
		if next != s.cur {
			if s.cur >= 0 {
				s.Switches++
				if s.OnSwitch != nil {
					s.OnSwitch(s.cur, next)
				}
			}
			s.cur = next
		}
		if n := len(s.Executed); n > 0 && s.Executed[n-1].Task == next {
			s.Executed[n-1].Steps++
		} else {
			s.Executed = append(s.Executed, Segment{Task: next, Steps: 1})
		}
		s.Steps++
		t := s.tasks[next]
		t.steps++
		if s.MaxSteps > 0 && s.Steps > s.MaxSteps {
			s.capped = true
		}
		t.resume <- struct{}{}
		ev := <-s.yielded
		s.lastOp = ev.op
		if ev.done {
			t.done = true
			remaining--
		}
	}
	s.cur = -1
	return !s.capped
}

// ScheduleHash fingerprints an executed schedule.
func ScheduleHash(segs []Segment) uint64 {
	h := uint64(14695981039346656037)
	for _, s := range segs {
		h ^= uint64(s.Task + 1)
		h *= 1099511628211
		h ^= uint64(s.Steps)
		h *= 1099511628211
	}
	return h
}

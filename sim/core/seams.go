package core

import (
	"errors"
	"fmt"
	"io"
	"os"
	"syscall"
	"time"
)

// ErrInjected is the error an injected fault returns by default.
var ErrInjected = errors.New("sim: injected fault")

// Flavors of injected errors: what real destinations and sources return is not
// always a plain error value. A fault plan names one of them.
var Flavors = []string{"plain", "temporary", "eagain", "shortwrite", "unexpected-eof", "closed", "eof", "uncomparable", "unwrap-nil"}

// tempErr looks like a net.Error that asks to be retried.
type tempErr struct{}

func (tempErr) Error() string   { return "sim: injected fault (temporary, timeout)" }
func (tempErr) Temporary() bool { return true }
func (tempErr) Timeout() bool   { return true }

// sliceErr is an error whose dynamic type is not comparable (like an aggregate
// of errors used by value): `err == other` panics at run time for it.
type sliceErr []error

func (e sliceErr) Error() string { return "sim: injected fault (aggregate of errors)" }

// causeErr is an error with an optional cause that is absent: Unwrap returns nil.
type causeErr struct{}

func (causeErr) Error() string { return "sim: injected fault (no cause)" }
func (causeErr) Unwrap() error { return nil }

// ErrFor returns the error value of a flavor.
func ErrFor(flavor string) error {
	switch flavor {
	case "temporary":
		return tempErr{}
	case "eagain":
		return fmt.Errorf("sim: injected fault: %w", syscall.EAGAIN)
	case "shortwrite":
		return io.ErrShortWrite
	case "unexpected-eof":
		return io.ErrUnexpectedEOF
	case "closed":
		return os.ErrClosed
	case "eof":
		return io.EOF // a destination or source may fail with exactly this value (a pipe whose other end was closed with it)
	case "uncomparable":
		return sliceErr{ErrInjected}
	case "unwrap-nil":
		return causeErr{}
	}
	return ErrInjected
}

// IsInjected reports whether err is one of the injected error values.
func IsInjected(err error) bool {
	if err == nil {
		return false
	}
	var t tempErr
	return errors.Is(err, ErrInjected) || errors.As(err, &t) || errors.Is(err, syscall.EAGAIN) || errors.Is(err, io.ErrShortWrite) || errors.Is(err, io.ErrUnexpectedEOF) || errors.Is(err, os.ErrClosed)
}

// ---------------------------------------------------------------- sim sink

// SinkFault describes a fault of the destination io.Writer. Faults respect the
// io.Writer contract: a short count always comes with an error.
type SinkFault struct {
	K      int    `json:"k"`                // 1-based index of the sink call that fails
	Kind   string `json:"kind"`             // err0 | torn | full (all bytes accepted, and an error)
	Arg    int    `json:"arg"`              // torn: selects how many bytes are accepted
	Sticky bool   `json:"sticky"`           // call K and all later calls fail
	Burst  int    `json:"burst,omitempty"`  // calls K..K+Burst-1 fail (an outage that ends): 0 and 1 mean call K only
	Flavor string `json:"flavor,omitempty"` // error value returned: see Flavors ("" = plain)
}

// SinkCall is one recorded call of the sink.
type SinkCall struct {
	Off      int    // offset of the first byte in the sink
	Len      int    // requested
	Accepted int    // accepted
	API      string // API call in progress: New, Write#n, Close
	Op       string // write | writestring | writebyte | readfrom
	Failed   bool
}

// Sink is the simulated destination. It copies the bytes it accepts (the
// library reuses pooled buffers), counts calls and injects at most one fault
// plan.
type Sink struct {
	Data   []byte
	Calls  []SinkCall
	Fault  *SinkFault
	Fired  int    // number of calls that returned an injected error
	CurAPI string // set by the executor before each API call
	// FirstFailAPI is the API call during which the first injected error was returned.
	FirstFailAPI string
	Yield        func() // scheduling point (C13), may be nil
	Log          *EventLog
	Flushes      int // Flush/Sync calls seen (kind wx)
}

func (s *Sink) Write(p []byte) (int, error) { return s.write(p, "write") }

// SinkX is a Sink that also implements io.StringWriter, io.ByteWriter and
// io.ReaderFrom, as *bufio.Writer and *os.File do: a library that type-asserts
// on its destination takes other paths with it. Every such call is a sink
// call: it is counted, can be the k-th failing call, and is a scheduling point.
type SinkX struct{ *Sink }

func (s SinkX) WriteString(str string) (int, error) { return s.Sink.write([]byte(str), "writestring") }

func (s SinkX) WriteByte(c byte) error {
	_, err := s.Sink.write([]byte{c}, "writebyte")
	return err
}

func (s SinkX) ReadFrom(r io.Reader) (int64, error) {
	data, rerr := io.ReadAll(r)
	n, err := s.Sink.write(data, "readfrom")
	if err == nil {
		err = rerr
	}
	return int64(n), err
}

// Flush and Sync make the destination look like a *bufio.Writer / *os.File to
// code that type-asserts for them. They always succeed (the property is about
// failing writes) and are recorded.
// Len and Grow are what *bytes.Buffer offers.
func (s SinkX) Len() int   { return len(s.Sink.Data) }
func (s SinkX) Grow(n int) {}

func (s SinkX) Flush() error { s.Sink.Flushes++; return nil }
func (s SinkX) Sync() error  { s.Sink.Flushes++; return nil }

// AsWriter returns the sink in the requested flavour: "w" (io.Writer only) or "wx".
func (s *Sink) AsWriter(kind string) io.Writer {
	if kind == "wx" {
		return SinkX{s}
	}
	if kind == "ws" {
		return SinkS{s}
	}
	return s
}

// SinkS is a destination that is also an io.Seeker, as a write buffer that
// embeds *os.File is (it overrides Write and inherits Seek): the position Seek
// reports is that of the file UNDER the buffer - what has been flushed so far,
// here whole blocks of 4096 bytes - plus the offset at which the section
// handed to the writer starts in that file. It says nothing about the number
// of bytes written through the io.Writer; a seek that would move the position
// is refused. Nothing in the io.Writer contract lets a callee rely on it.
type SinkS struct{ *Sink }

func (s SinkS) Seek(off int64, whence int) (int64, error) {
	flushed := int64(len(s.Sink.Data) - len(s.Sink.Data)%4096)
	const sectionStart = 512
	if whence == io.SeekCurrent && off == 0 {
		return sectionStart + flushed, nil
	}
	if whence == io.SeekEnd && off == 0 {
		return sectionStart + flushed, nil
	}
	return 0, errors.New("sim sink: seek not supported on a write buffer")
}

func (s *Sink) write(p []byte, op string) (int, error) {
	if s.Yield != nil {
		s.Yield()
	}
	k := len(s.Calls) + 1
	call := SinkCall{Off: len(s.Data), Len: len(p), API: s.CurAPI, Op: op}
	n := len(p)
	var err error
	if f := s.Fault; f != nil && (k == f.K || (f.Sticky && k > f.K) || (k > f.K && k < f.K+f.Burst)) {
		err = ErrFor(f.Flavor)
		n = 0
		if f.Kind == "torn" && len(p) >= 2 {
			n = 1 + f.Arg%(len(p)-1)
		}
		if f.Kind == "full" {
			n = len(p)
		}
		call.Failed = true
		s.Fired++
		if s.FirstFailAPI == "" {
			s.FirstFailAPI = s.CurAPI
		}
	}
	s.Data = append(s.Data, p[:n]...)
	call.Accepted = n
	s.Calls = append(s.Calls, call)
	if s.Log != nil {
		s.Log.Add("sink", op, len(p), n, err != nil, HashBytes(p[:n]))
	}
	return n, err
}

// ---------------------------------------------------------------- sim source

// Frag describes how the source fragments reads (all within the io.Reader
// contract: 1 <= n <= len(p) while data remains; never (0, nil) for len(p) > 0).
type Frag struct {
	Policy      string `json:"policy"` // full | fixed | random | small | lenm1 | onefull
	Arg         int    `json:"arg"`    // fixed: chunk size
	Seed        uint64 `json:"seed"`   // random/small
	EOFWithData bool   `json:"eof_with_data"`
	// Scribble: a short read uses the rest of the caller's buffer as scratch space
	// (the io.Reader contract allows it: "even if Read returns n < len(p), it may
	// use all of p as scratch space during the call").
	Scribble bool `json:"scribble,omitempty"`
}

// SrcFault describes a fault of the source io.ReadSeeker.
type SrcFault struct {
	K      int    `json:"k"`                // 1-based index over Read, ReadByte and Seek calls
	Kind   string `json:"kind"`             // err0 | partial | full (all requested bytes, and an error) | early_eof   (a Seek call fails with an error whatever the kind)
	Arg    int    `json:"arg"`              // partial: selects how many bytes are returned
	Sticky bool   `json:"sticky"`           // call K and all later calls fail
	Burst  int    `json:"burst,omitempty"`  // calls K..K+Burst-1 fail (an outage that ends): 0 and 1 mean call K only
	Flavor string `json:"flavor,omitempty"` // error value returned: see Flavors ("" = plain)
}

// SrcStats counts what the source actually did.
type SrcStats struct {
	Calls      int
	Reads      int
	ReadBytes  int
	Seeks      int
	ReadAts    int
	WriteTos   int
	Shortened  int // reads that returned fewer bytes than requested although more were available
	EOFData    int // reads that returned n>0 together with io.EOF
	Fired      int // calls that returned an injected fault
	FiredSeek  int
	MaxReadReq int // largest len(p) seen
	FirstFired int // call index of the first fired fault
	FiredOp    string
}

// Source is the simulated io.ReadSeeker.
type Source struct {
	data      []byte
	pos       int64
	Frag      *Frag
	Fault     *SrcFault
	Stats     SrcStats
	rng       *Rng
	afterSeek bool
	Yield     func()
	Log       *EventLog
	// Phase labelling for evidence: the executor sets it.
	CurAPI string
	// FiredAPI is the API call in progress when the first fault fired.
	FiredAPI string
	// MaxCalls bounds the run (0 = unbounded); exceeding it panics with stepCap.
	MaxCalls int
	// Record makes the source remember the requested size of every call
	// (0 for Seek), so that fault plans can be biased to the large reads.
	Record bool
	Req    []int32
	// FileName is the name the source reports in kind "rsf".
	FileName string
}

func (s *Source) rec(n int) {
	for len(s.Req) < s.Stats.Calls-1 {
		s.Req = append(s.Req, 0)
	}
	s.Req = append(s.Req, int32(n))
}

func (s *Source) step() {
	if s.Yield != nil {
		s.Yield()
	}
	s.Stats.Calls++
	if s.MaxCalls > 0 && s.Stats.Calls > s.MaxCalls {
		panic(stepCap{})
	}
}

// NewSource builds a source over data. frag and fault may be nil.
func NewSource(data []byte, frag *Frag, fault *SrcFault) *Source {
	s := &Source{data: data, Frag: frag, Fault: fault}
	if frag != nil {
		s.rng = NewRng(frag.Seed)
	}
	return s
}

// Reopen makes the SAME source object (same identity for the code under test,
// same name) serve other content from the start: a file handle that was kept
// open while the file changed underneath it, or a bytes.Reader after Reset.
func (s *Source) Reopen(data []byte) {
	s.data = data
	s.pos = 0
	s.afterSeek = false
	s.Stats = SrcStats{}
	s.Req = nil
}

// SetFrag installs a fragmentation policy on an existing source.
func (s *Source) SetFrag(frag *Frag) {
	s.Frag = frag
	s.rng = nil
	if frag != nil {
		s.rng = NewRng(frag.Seed)
	}
}

func (s *Source) faulted() bool {
	k := s.Stats.Calls
	f := s.Fault
	return f != nil && (k == f.K || (f.Sticky && k > f.K) || (k > f.K && k < f.K+f.Burst))
}

func (s *Source) fire(op string) {
	s.Stats.Fired++
	if s.Stats.Fired == 1 {
		s.Stats.FirstFired = s.Stats.Calls
		s.Stats.FiredOp = op
		s.FiredAPI = s.CurAPI
	}
}

func (s *Source) Read(p []byte) (int, error) {
	s.step()
	if s.Record {
		s.rec(len(p))
	}
	s.Stats.Reads++
	if len(p) > s.Stats.MaxReadReq {
		s.Stats.MaxReadReq = len(p)
	}
	if len(p) == 0 {
		s.log("read", 0, 0, false, nil)
		return 0, nil
	}
	remaining := int64(len(s.data)) - s.pos
	avail := len(p)
	if int64(avail) > remaining {
		avail = int(remaining)
	}
	if s.faulted() {
		s.fire("read")
		switch s.Fault.Kind {
		case "early_eof":
			s.log("read", len(p), 0, true, nil)
			return 0, io.EOF
		case "partial":
			if avail >= 2 {
				n := 1 + s.Fault.Arg%(avail-1)
				copy(p, s.data[s.pos:s.pos+int64(n)])
				s.pos += int64(n)
				s.log("read", len(p), n, true, p[:n])
				return n, ErrFor(s.Fault.Flavor)
			}
		case "full":
			if avail >= 1 {
				copy(p, s.data[s.pos:s.pos+int64(avail)])
				s.pos += int64(avail)
				s.log("read", len(p), avail, true, p[:avail])
				return avail, ErrFor(s.Fault.Flavor)
			}
		}
		s.log("read", len(p), 0, true, nil)
		return 0, ErrFor(s.Fault.Flavor)
	}
	if remaining <= 0 {
		s.log("read", len(p), 0, false, nil)
		return 0, io.EOF
	}
	n := avail
	if f := s.Frag; f != nil {
		switch f.Policy {
		case "fixed":
			if f.Arg >= 1 && f.Arg < n {
				n = f.Arg
			}
		case "random":
			n = 1 + s.rng.Intn(avail)
		case "small":
			n = 1 + s.rng.Intn(3)
			if n > avail {
				n = avail
			}
		case "lenm1":
			if avail > 1 {
				n = avail - 1
			}
		case "onefull":
			if s.afterSeek {
				n = 1
			}
		}
	}
	s.afterSeek = false
	if n < avail {
		s.Stats.Shortened++
	}
	copy(p, s.data[s.pos:s.pos+int64(n)])
	if s.Frag != nil && s.Frag.Scribble {
		// bounded work per call: the 64 bytes right after the data and the last 64 bytes of the buffer
		for i := n; i < len(p) && i < n+64; i++ {
			p[i] = 0xA7 ^ byte(i)
		}
		for i := len(p) - 64; i < len(p); i++ {
			if i >= n {
				p[i] = 0xA7 ^ byte(i)
			}
		}
	}
	s.pos += int64(n)
	var err error
	if s.Frag != nil && s.Frag.EOFWithData && s.pos == int64(len(s.data)) {
		err = io.EOF
		s.Stats.EOFData++
	}
	s.log("read", len(p), n, false, p[:n])
	return n, err
}

func (s *Source) readByte() (byte, error) {
	s.step()
	s.Stats.ReadBytes++
	if s.faulted() {
		s.fire("readbyte")
		s.log("readbyte", 1, 0, true, nil)
		if s.Fault.Kind == "early_eof" {
			return 0, io.EOF
		}
		return 0, ErrFor(s.Fault.Flavor)
	}
	if s.pos >= int64(len(s.data)) {
		s.log("readbyte", 1, 0, false, nil)
		return 0, io.EOF
	}
	c := s.data[s.pos]
	s.pos++
	s.afterSeek = false
	s.log("readbyte", 1, 1, false, []byte{c})
	return c, nil
}

func (s *Source) Seek(off int64, whence int) (int64, error) {
	s.step()
	s.Stats.Seeks++
	if s.faulted() {
		s.fire("seek")
		s.Stats.FiredSeek++
		s.log("seek", int(off), whence, true, nil)
		return 0, ErrFor(s.Fault.Flavor)
	}
	var np int64
	switch whence {
	case io.SeekStart:
		np = off
	case io.SeekCurrent:
		np = s.pos + off
	case io.SeekEnd:
		np = int64(len(s.data)) + off
	default:
		return 0, errors.New("sim source: invalid whence")
	}
	if np < 0 {
		// what bytes.Reader and os.File do: an error, position unchanged
		s.log("seek", int(off), whence, false, nil)
		return 0, errors.New("sim source: negative position")
	}
	s.pos = np
	s.afterSeek = true
	s.log("seek", int(off), whence, false, nil)
	return np, nil
}

func (s *Source) log(op string, a, b int, fault bool, data []byte) {
	if s.Log != nil {
		s.Log.Add("source", op, a, b, fault, HashBytes(data))
	}
}

// SourceB is a Source that also implements io.ByteReader; thrift takes a
// different path for it.
type SourceB struct{ *Source }

func (s SourceB) ReadByte() (byte, error) { return s.Source.readByte() }

// SourceX additionally implements io.ReaderAt and io.WriterTo, as
// *bytes.Reader does (and *os.File in part).
type SourceX struct{ SourceB }

// ReadAt honours the io.ReaderAt contract: it fills p completely or returns an
// error; it does not move the stream position. It is a source call: counted,
// can be the k-th failing call.
func (s SourceX) ReadAt(p []byte, off int64) (int, error) {
	src := s.Source
	src.step()
	src.Stats.ReadAts++
	if src.faulted() {
		src.fire("readat")
		src.log("readat", len(p), 0, true, nil)
		if src.Fault.Kind == "early_eof" {
			return 0, io.EOF
		}
		return 0, ErrFor(src.Fault.Flavor)
	}
	if off < 0 || off >= int64(len(src.data)) {
		src.log("readat", len(p), 0, false, nil)
		return 0, io.EOF
	}
	n := copy(p, src.data[off:])
	src.log("readat", len(p), n, false, p[:n])
	if n < len(p) {
		return n, io.EOF
	}
	if src.Frag != nil && src.Frag.EOFWithData && off+int64(n) == int64(len(src.data)) {
		// the io.ReaderAt contract: a full read that ends at the end of the input
		// may return either nil or io.EOF
		src.Stats.EOFData++
		return n, io.EOF
	}
	return n, nil
}

// Len and Size are what *bytes.Reader and *strings.Reader offer: the unread
// bytes and the total size (of what is on the simulated disk, i.e. of the
// prefix after a crash).
func (s SourceX) Len() int    { return len(s.Source.data) - int(s.Source.pos) }
func (s SourceX) Size() int64 { return int64(len(s.Source.data)) }

// WriteTo writes the rest of the stream to w (what io.Copy uses when present).
func (s SourceX) WriteTo(w io.Writer) (int64, error) {
	src := s.Source
	src.step()
	src.Stats.WriteTos++
	if src.faulted() {
		src.fire("writeto")
		src.log("writeto", 0, 0, true, nil)
		return 0, ErrFor(src.Fault.Flavor)
	}
	if src.pos >= int64(len(src.data)) {
		return 0, nil
	}
	rest := src.data[src.pos:]
	n, err := w.Write(rest)
	src.pos += int64(n)
	src.log("writeto", len(rest), n, false, rest[:n])
	return int64(n), err
}

// SourceF additionally looks like an *os.File on the simulated disk: it has a
// name and can be Stat-ed. The simulated disk has no clock: the modification
// time never changes, also not when a crash leaves a shorter file under the
// same name.
type SourceF struct{ SourceX }

func (s SourceF) Name() string { return s.Source.FileName }
func (s SourceF) Stat() (os.FileInfo, error) {
	return simFileInfo{name: s.Source.FileName, size: int64(len(s.Source.data))}, nil
}

type simFileInfo struct {
	name string
	size int64
}

func (f simFileInfo) Name() string       { return f.name }
func (f simFileInfo) Size() int64        { return f.size }
func (f simFileInfo) Mode() os.FileMode  { return 0o644 }
func (f simFileInfo) ModTime() time.Time { return time.Unix(1000000000, 0) }
func (f simFileInfo) IsDir() bool        { return false }
func (f simFileInfo) Sys() interface{}   { return nil }

// AsReadSeeker returns the source in the requested flavour: "rs"
// (io.ReadSeeker only), "rsb" (+ io.ByteReader), "rsx" (+ io.ByteReader,
// io.ReaderAt, io.WriterTo) or "rsf" (rsx + Name and Stat, like *os.File).
func (s *Source) AsReadSeeker(kind string) io.ReadSeeker {
	switch kind {
	case "rsb":
		return SourceB{s}
	case "rsx":
		return SourceX{SourceB{s}}
	case "rsf":
		if s.FileName == "" {
			// one name per file content; callers that open a shorter version of the
			// same file (C11) set the name of the complete file themselves
			s.FileName = fmt.Sprintf("sim-%016x.parquet", HashBytes(s.data))
		}
		return SourceF{SourceX{SourceB{s}}}
	}
	return s
}

// ---------------------------------------------------------------- event log

// EventLog fingerprints every seam call of a run; used by the determinism
// self-test. It never draws from a PRNG and never reads a clock.
type EventLog struct {
	N    int
	Hash uint64
}

func NewEventLog() *EventLog { return &EventLog{Hash: 14695981039346656037} }

func (l *EventLog) Add(seam, op string, a, b int, fault bool, h uint64) {
	l.N++
	x := l.Hash
	mixin := func(v uint64) {
		x ^= v
		x *= 1099511628211
	}
	mixin(HashString(seam))
	mixin(HashString(op))
	mixin(uint64(a))
	mixin(uint64(b))
	if fault {
		mixin(1)
	} else {
		mixin(0)
	}
	mixin(h)
	l.Hash = x
}

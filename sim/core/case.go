package core

import (
	"encoding/json"
	"fmt"
	"os"
	"strings"
)

// Op is one call of a writer history.
type Op struct {
	K   string          `json:"op"` // add | write | close
	Rec json.RawMessage `json:"rec,omitempty"`
	val interface{}     // decoded record (cache)
}

// WriterSpec is one writer instance: configuration and call history.
type WriterSpec struct {
	Shape    string `json:"shape"`
	Page     int    `json:"page"`
	Codec    string `json:"codec"`
	Ops      []Op   `json:"ops"`
	// ReadAs, when set, names the shape whose generated reader reads the file back
	// (reader-side properties only): a struct with the same columns declared in
	// another order. Empty = the shape that wrote it.
	ReadAs string `json:"read_as,omitempty"`
	Large    bool   `json:"-"` // drawn from the large class (informative, not part of the case)
	Many     bool   `json:"-"` // drawn from the many-row-groups class
	Huge     bool   `json:"-"` // drawn from the huge-value class
	Edge     bool   `json:"-"` // a quarter of its scalars are edge values
	Boundary bool   `json:"-"` // drawn from the boundary class
	Million  bool   `json:"-"` // drawn from the million-rows class (bool pages of 64 KiB and more)
	Giant    bool   `json:"-"` // drawn from the giant-page class (one page body beyond 1 MiB)
}

// TaskSpec is one instance of a C13 run.
type TaskSpec struct {
	Kind string      `json:"kind"` // writer | reader
	W    *WriterSpec `json:"w"`    // writer: its history; reader: the history that produces the file it reads
	// reader only
	SourceKind string `json:"source_kind,omitempty"`
	// optional fault plans of this instance (the solo reference runs with the same plan)
	SinkFault *SinkFault `json:"sink_fault,omitempty"`
	SrcFault  *SrcFault  `json:"src_fault,omitempty"`
	SinkKind  string     `json:"sink_kind,omitempty"`
	// reader only: how the client uses the reader: "" (documented loop) | count | alt | abandon
	ReadMode string `json:"read_mode,omitempty"`
	// writer only: the client never calls Close (the instance is abandoned after its last Write)
	NoClose bool `json:"no_close,omitempty"`
}

// Segment is a run-length piece of an executed schedule.
type Segment struct {
	Task  int `json:"t"`
	Steps int `json:"n"`
}

// SchedSpec describes the scheduler of a C13 run: either a seeded policy or an
// explicit list of segments (what replay files store).
type SchedSpec struct {
	Policy   string    `json:"policy"` // uniform | sticky | roundrobin | onput | onget | pct | explicit
	Seed     uint64    `json:"seed"`
	Arg      int       `json:"arg"`
	Explicit []Segment `json:"explicit,omitempty"`
}

// PoolSpec describes the simulated buffer pool of a C13 run.
type PoolSpec struct {
	Get     string     `json:"get"` // lifo | fifo | random | fresh
	Seed    uint64     `json:"seed"`
	Prefill []PreBuf   `json:"prefill,omitempty"`
	NewCaps []int      `json:"new_caps,omitempty"` // capacities for newly created buffers, cycled
	Prior   []TaskSpec `json:"prior,omitempty"`    // instances run to completion before the interleaved phase
}

// PreBuf is a buffer placed in the pool before the run.
type PreBuf struct {
	Cap  int  `json:"cap"`
	Fill byte `json:"fill"`
}

// Case is the explicit description of one simulated run. Execution is a pure
// function of the case and the code under test.
type Case struct {
	Prop string `json:"property"`
	Seed uint64 `json:"runseed"` // informative: the PRNG value the case was drawn from

	W *WriterSpec `json:"writer,omitempty"`

	SinkFault *SinkFault `json:"sink_fault,omitempty"` // C09
	SinkKind  string     `json:"sink_kind,omitempty"`  // w (io.Writer only) | wx (+ StringWriter, ByteWriter, ReaderFrom)

	SourceKind string    `json:"source_kind,omitempty"` // rs | rsb
	Frag       *Frag     `json:"frag,omitempty"`        // C08
	SrcFault   *SrcFault `json:"src_fault,omitempty"`   // C10
	Cut        *int      `json:"cut,omitempty"`         // C11: durable prefix length
	// C11: the reading program held the source object open while the file was
	// still complete (it read it once), then the crash cut the file and the
	// program opens a new reader on the same object.
	HeldHandle bool `json:"held_handle,omitempty"`
	ReadMode   string    `json:"read_mode,omitempty"`   // client variant of the reader ("" = documented loop; errcheck)

	Tasks []TaskSpec `json:"tasks,omitempty"` // C13
	Sched *SchedSpec `json:"sched,omitempty"`
	Pool  *PoolSpec  `json:"pool,omitempty"`
	// C13 fresh-process arm: each entry is an order of task indices executed
	// one after the other in its own freshly started OS process.
	Procs [][]int `json:"procs,omitempty"`
}

// ReplayFile is what is written under replays/.
type ReplayFile struct {
	Property  string `json:"property"`
	Signature string `json:"signature"`
	Detail    string `json:"detail"`
	Seed      uint64 `json:"verif_seed"`
	Tier      string `json:"tier"`
	Shrunk    string `json:"minimisation"`
	Case      *Case  `json:"case"`
	// RaceMonitor is set for findings of the supplementary race-detector
	// monitor of C13 (not deterministic; replay re-runs the monitor).
	RaceMonitor *RaceSpec `json:"race_monitor,omitempty"`
	// TimeSim is set for findings of the simulated-clock arm of C08
	// (deterministic; replay re-runs that one index in the fake-clock binary).
	TimeSim *TimeSpec `json:"time_sim,omitempty"`
}

// TimeSpec is the configuration of one run of the simulated-clock arm of C08
// (timesim): Runs seeded files, or only the one with index Only (>= 0).
type TimeSpec struct {
	Seed uint64 `json:"seed"`
	Runs int    `json:"runs"`
	Only int    `json:"only"`
}

// RaceSpec is the configuration of one race-monitor run.
type RaceSpec struct {
	Seed       uint64 `json:"seed"`
	Goroutines int    `json:"goroutines"`
	Rounds     int    `json:"rounds"`
	Per        int    `json:"per"`
}

func (c *Case) Clone() *Case {
	b, err := json.Marshal(c)
	if err != nil {
		panic(err)
	}
	var out Case
	if err := json.Unmarshal(b, &out); err != nil {
		panic(err)
	}
	return &out
}

func (c *Case) JSON() []byte {
	b, err := json.Marshal(c)
	if err != nil {
		panic(err)
	}
	return b
}

func LoadReplay(path string) (*ReplayFile, error) {
	b, err := os.ReadFile(path)
	if err != nil {
		return nil, err
	}
	var rf ReplayFile
	if err := json.Unmarshal(b, &rf); err != nil {
		return nil, err
	}
	if rf.Case == nil && rf.RaceMonitor == nil && rf.TimeSim == nil {
		return nil, fmt.Errorf("%s: no case", path)
	}
	return &rf, nil
}

// Val returns the decoded record of an add op.
func (o *Op) Val(sh *Shape) interface{} {
	if o.val == nil {
		v, err := DecodeRec(o.Rec, sh.Type)
		if err != nil {
			panic(fmt.Sprintf("bad record in case: %v", err))
		}
		o.val = v
	}
	return o.val
}

func AddOp(rec interface{}) Op { return Op{K: "add", Rec: RecJSON(rec), val: rec} }
func WriteOp() Op              { return Op{K: "write"} }
func CloseOp() Op              { return Op{K: "close"} }

// ReadShape is the shape whose reader reads the file of this history.
func (w *WriterSpec) ReadShape() string {
	if w.ReadAs != "" {
		return w.ReadAs
	}
	return w.Shape
}

// HistoryString is the canonical compact form A^n W ... C of a history.
func (w *WriterSpec) HistoryString() string {
	var b strings.Builder
	n := 0
	flush := func() {
		if n > 0 {
			fmt.Fprintf(&b, "A%d ", n)
			n = 0
		}
	}
	for _, o := range w.Ops {
		switch o.K {
		case "add":
			n++
		case "write":
			flush()
			b.WriteString("W ")
		case "close":
			flush()
			b.WriteString("C")
		}
	}
	flush()
	sh := w.Shape
	if w.ReadAs != "" {
		sh += ">" + w.ReadAs
	}
	return fmt.Sprintf("%s|p%d|%s|%s", sh, w.Page, w.Codec, strings.TrimSpace(b.String()))
}

// Violation is a property violation found by a check.
type Violation struct {
	Prop   string `json:"property"`
	Sig    string `json:"signature"`
	Detail string `json:"detail"`
	Case   *Case  `json:"case"`
}

package core

import (
	"bytes"
	"encoding/json"
	"fmt"
	"math"
	"reflect"
	"strconv"
)

// Reflection-based helpers over the record structs of the shapes: lossless
// JSON encoding (for case/replay files), deep equality with the semantics the
// properties use (nil slice == empty slice, floats bit for bit), seeded value
// generation and deep copy.

// EncodeRec turns a record into a JSON-encodable tree. Floats are written as
// bit patterns, strings Go-quoted (ASCII), ints as JSON numbers.
func EncodeRec(v interface{}) interface{} { return encodeVal(reflect.ValueOf(v)) }

type orderedObj struct {
	keys []string
	vals []interface{}
}

func (o orderedObj) MarshalJSON() ([]byte, error) {
	var b bytes.Buffer
	b.WriteByte('{')
	for i, k := range o.keys {
		if i > 0 {
			b.WriteByte(',')
		}
		kb, _ := json.Marshal(k)
		b.Write(kb)
		b.WriteByte(':')
		vb, err := json.Marshal(o.vals[i])
		if err != nil {
			return nil, err
		}
		b.Write(vb)
	}
	b.WriteByte('}')
	return b.Bytes(), nil
}

func encodeVal(v reflect.Value) interface{} {
	switch v.Kind() {
	case reflect.Bool:
		return v.Bool()
	case reflect.Int, reflect.Int8, reflect.Int16, reflect.Int32, reflect.Int64:
		return json.Number(strconv.FormatInt(v.Int(), 10))
	case reflect.Uint, reflect.Uint8, reflect.Uint16, reflect.Uint32, reflect.Uint64:
		return json.Number(strconv.FormatUint(v.Uint(), 10))
	case reflect.Float32:
		return "f32:" + strconv.FormatUint(uint64(math.Float32bits(float32(v.Float()))), 16)
	case reflect.Float64:
		return "f64:" + strconv.FormatUint(math.Float64bits(v.Float()), 16)
	case reflect.String:
		return strconv.QuoteToASCII(v.String())
	case reflect.Ptr:
		if v.IsNil() {
			return nil
		}
		return encodeVal(v.Elem())
	case reflect.Slice:
		out := make([]interface{}, v.Len())
		for i := range out {
			out[i] = encodeVal(v.Index(i))
		}
		return out
	case reflect.Struct:
		o := orderedObj{}
		t := v.Type()
		for i := 0; i < t.NumField(); i++ {
			if t.Field(i).PkgPath != "" {
				continue
			}
			o.keys = append(o.keys, t.Field(i).Name)
			o.vals = append(o.vals, encodeVal(v.Field(i)))
		}
		return o
	}
	panic("encodeVal: unsupported kind " + v.Kind().String())
}

// RecJSON returns the canonical JSON text of a record.
func RecJSON(v interface{}) json.RawMessage {
	if v == nil {
		return json.RawMessage("null")
	}
	b, err := json.Marshal(EncodeRec(v))
	if err != nil {
		panic(err)
	}
	return b
}

// DecodeRec parses canonical JSON into a new value of type t (a struct type).
func DecodeRec(raw json.RawMessage, t reflect.Type) (interface{}, error) {
	dec := json.NewDecoder(bytes.NewReader(raw))
	dec.UseNumber()
	var tree interface{}
	if err := dec.Decode(&tree); err != nil {
		return nil, err
	}
	v := reflect.New(t).Elem()
	if err := decodeVal(tree, v); err != nil {
		return nil, err
	}
	return v.Interface(), nil
}

func decodeVal(tree interface{}, v reflect.Value) error {
	switch v.Kind() {
	case reflect.Bool:
		b, ok := tree.(bool)
		if !ok {
			return fmt.Errorf("want bool, got %T", tree)
		}
		v.SetBool(b)
	case reflect.Int, reflect.Int8, reflect.Int16, reflect.Int32, reflect.Int64:
		n, ok := tree.(json.Number)
		if !ok {
			return fmt.Errorf("want number, got %T", tree)
		}
		x, err := strconv.ParseInt(string(n), 10, 64)
		if err != nil {
			return err
		}
		v.SetInt(x)
	case reflect.Uint, reflect.Uint8, reflect.Uint16, reflect.Uint32, reflect.Uint64:
		n, ok := tree.(json.Number)
		if !ok {
			return fmt.Errorf("want number, got %T", tree)
		}
		x, err := strconv.ParseUint(string(n), 10, 64)
		if err != nil {
			return err
		}
		v.SetUint(x)
	case reflect.Float32, reflect.Float64:
		s, ok := tree.(string)
		if !ok || len(s) < 5 {
			return fmt.Errorf("want float bits, got %v", tree)
		}
		x, err := strconv.ParseUint(s[4:], 16, 64)
		if err != nil {
			return err
		}
		if v.Kind() == reflect.Float32 {
			v.SetFloat(float64(math.Float32frombits(uint32(x))))
		} else {
			v.SetFloat(math.Float64frombits(x))
		}
	case reflect.String:
		s, ok := tree.(string)
		if !ok {
			return fmt.Errorf("want string, got %T", tree)
		}
		u, err := strconv.Unquote(s)
		if err != nil {
			return err
		}
		v.SetString(u)
	case reflect.Ptr:
		if tree == nil {
			v.Set(reflect.Zero(v.Type()))
			return nil
		}
		p := reflect.New(v.Type().Elem())
		if err := decodeVal(tree, p.Elem()); err != nil {
			return err
		}
		v.Set(p)
	case reflect.Slice:
		if tree == nil {
			v.Set(reflect.Zero(v.Type()))
			return nil
		}
		arr, ok := tree.([]interface{})
		if !ok {
			return fmt.Errorf("want array, got %T", tree)
		}
		s := reflect.MakeSlice(v.Type(), len(arr), len(arr))
		for i := range arr {
			if err := decodeVal(arr[i], s.Index(i)); err != nil {
				return err
			}
		}
		v.Set(s)
	case reflect.Struct:
		m, ok := tree.(map[string]interface{})
		if !ok {
			return fmt.Errorf("want object, got %T", tree)
		}
		t := v.Type()
		for i := 0; i < t.NumField(); i++ {
			if t.Field(i).PkgPath != "" {
				continue
			}
			sub, ok := m[t.Field(i).Name]
			if !ok {
				continue
			}
			if err := decodeVal(sub, v.Field(i)); err != nil {
				return fmt.Errorf("%s: %v", t.Field(i).Name, err)
			}
		}
	default:
		return fmt.Errorf("decodeVal: unsupported kind %s", v.Kind())
	}
	return nil
}

// EqualRec compares two records: nil slice == empty slice, floats bit for
// bit, nil pointer != pointer to zero value.
func EqualRec(a, b interface{}) bool {
	if a == nil || b == nil {
		return a == nil && b == nil // a row that was seen but not scanned
	}
	return equalVal(reflect.ValueOf(a), reflect.ValueOf(b))
}

func equalVal(a, b reflect.Value) bool {
	if a.Kind() != b.Kind() {
		return false
	}
	switch a.Kind() {
	case reflect.Bool:
		return a.Bool() == b.Bool()
	case reflect.Int, reflect.Int8, reflect.Int16, reflect.Int32, reflect.Int64:
		return a.Int() == b.Int()
	case reflect.Uint, reflect.Uint8, reflect.Uint16, reflect.Uint32, reflect.Uint64:
		return a.Uint() == b.Uint()
	case reflect.Float32:
		return math.Float32bits(float32(a.Float())) == math.Float32bits(float32(b.Float()))
	case reflect.Float64:
		return math.Float64bits(a.Float()) == math.Float64bits(b.Float())
	case reflect.String:
		return a.String() == b.String()
	case reflect.Ptr:
		if a.IsNil() || b.IsNil() {
			return a.IsNil() == b.IsNil()
		}
		return equalVal(a.Elem(), b.Elem())
	case reflect.Slice:
		if a.Len() != b.Len() {
			return false
		}
		for i := 0; i < a.Len(); i++ {
			if !equalVal(a.Index(i), b.Index(i)) {
				return false
			}
		}
		return true
	case reflect.Struct:
		t := a.Type()
		for i := 0; i < t.NumField(); i++ {
			if t.Field(i).PkgPath != "" {
				continue
			}
			if !equalVal(a.Field(i), b.Field(i)) {
				return false
			}
		}
		return true
	}
	return false
}

// CopyRec deep-copies a record.
func CopyRec(v interface{}) interface{} {
	src := reflect.ValueOf(v)
	dst := reflect.New(src.Type()).Elem()
	copyVal(src, dst)
	return dst.Interface()
}

func copyVal(src, dst reflect.Value) {
	switch src.Kind() {
	case reflect.Ptr:
		if src.IsNil() {
			return
		}
		p := reflect.New(src.Type().Elem())
		copyVal(src.Elem(), p.Elem())
		dst.Set(p)
	case reflect.Slice:
		if src.IsNil() {
			return
		}
		s := reflect.MakeSlice(src.Type(), src.Len(), src.Len())
		for i := 0; i < src.Len(); i++ {
			copyVal(src.Index(i), s.Index(i))
		}
		dst.Set(s)
	case reflect.Struct:
		for i := 0; i < src.NumField(); i++ {
			if src.Type().Field(i).PkgPath != "" {
				continue
			}
			copyVal(src.Field(i), dst.Field(i))
		}
	default:
		dst.Set(src)
	}
}

// ValueProfile controls record generation.
type ValueProfile struct {
	MaxList   int  // maximum slice length
	MaxStr    int  // maximum string length
	RawBytes  bool // strings of arbitrary bytes instead of lower-case ASCII
	NilChance int  // percent chance for a pointer to be nil
	HugePct   int  // percent chance for a string to be 66000..140000 bytes (page bodies beyond 64 KiB)
	EdgePct   int  // percent chance for a scalar to be an edge value (min/max ints, NaN, -0, Inf, odd strings)
}

// Benign is the default profile: small ints, short ASCII strings, finite floats.
var Benign = ValueProfile{MaxList: 3, MaxStr: 6, NilChance: 40}

// GenRec draws a record of struct type t.
func GenRec(r *Rng, t reflect.Type, p ValueProfile) interface{} {
	v := reflect.New(t).Elem()
	genVal(r, v, p, 0)
	return v.Interface()
}

func genVal(r *Rng, v reflect.Value, p ValueProfile, depth int) {
	switch v.Kind() {
	case reflect.Bool:
		v.SetBool(r.Chance(1, 2))
	case reflect.Int, reflect.Int8, reflect.Int16, reflect.Int32, reflect.Int64:
		v.SetInt(int64(r.Range(-50, 1000)))
		if p.EdgePct > 0 && r.Intn(100) < p.EdgePct {
			bits := uint(v.Type().Bits())
			switch r.Intn(5) {
			case 0:
				v.SetInt(-1 << (bits - 1))
			case 1:
				v.SetInt(1<<(bits-1) - 1)
			case 2:
				v.SetInt(0)
			case 3:
				v.SetInt(-1)
			default:
				// varint boundaries, and "PAR1" read as a little-endian number (after a 0 it imitates an empty trailer)
				c := []int64{127, 128, 16383, 16384, 65535, 65536, 0x31524150, 0x3152415000000000}
				x := c[r.Intn(len(c))]
				if bits < 64 && x > 1<<(bits-1)-1 {
					x = 0x31524150
				}
				v.SetInt(x)
			}
		}
	case reflect.Uint, reflect.Uint8, reflect.Uint16, reflect.Uint32, reflect.Uint64:
		v.SetUint(uint64(r.Range(0, 1000)))
		if p.EdgePct > 0 && r.Intn(100) < p.EdgePct {
			bits := uint(v.Type().Bits())
			switch r.Intn(3) {
			case 0:
				v.SetUint(1<<bits - 1)
			case 1:
				v.SetUint(1 << (bits - 1))
			default:
				v.SetUint(0)
			}
		}
	case reflect.Float32, reflect.Float64:
		v.SetFloat(float64(r.Range(-400, 4000)) / 4)
		if p.EdgePct > 0 && r.Intn(100) < p.EdgePct {
			switch r.Intn(6) {
			case 0:
				v.SetFloat(math.NaN())
			case 1:
				v.SetFloat(math.Inf(1))
			case 2:
				v.SetFloat(math.Inf(-1))
			case 3:
				v.SetFloat(math.Copysign(0, -1))
			case 4:
				v.SetFloat(math.MaxFloat32)
			default:
				v.SetFloat(math.SmallestNonzeroFloat32)
			}
		}
	case reflect.String:
		if p.EdgePct > 0 && r.Intn(100) < p.EdgePct {
			v.SetString([]string{"", "PAR1", "__#NIL#__", "\xff\xfe\x00", "\x00", "PAR1\x15\x00PAR1", "\x00\x00\x00\x00PAR1", "\x00\x01\x00\x00\x00PAR1"}[r.Intn(8)])
			return
		}
		n := r.Range(0, p.MaxStr)
		if p.HugePct > 0 && r.Intn(100) < p.HugePct {
			n = r.Range(66000, 140000)
		}
		b := make([]byte, n)
		for i := range b {
			if p.RawBytes {
				b[i] = byte(r.Intn(256))
			} else {
				b[i] = byte('a' + r.Intn(26))
			}
		}
		v.SetString(string(b))
	case reflect.Ptr:
		if r.Intn(100) < p.NilChance {
			return
		}
		e := reflect.New(v.Type().Elem())
		genVal(r, e.Elem(), p, depth+1)
		v.Set(e)
	case reflect.Slice:
		max := p.MaxList
		if depth >= 2 && max > 2 {
			max = 2
		}
		n := r.Range(0, max)
		if n == 0 {
			return // nil slice
		}
		s := reflect.MakeSlice(v.Type(), n, n)
		for i := 0; i < n; i++ {
			genVal(r, s.Index(i), p, depth+1)
		}
		v.Set(s)
	case reflect.Struct:
		for i := 0; i < v.NumField(); i++ {
			if v.Type().Field(i).PkgPath != "" {
				continue
			}
			genVal(r, v.Field(i), p, depth)
		}
	default:
		panic("genVal: unsupported kind " + v.Kind().String())
	}
}

// CopyRecSpare deep-copies a record giving every slice spare capacity (as
// windows into a larger array have): anything that appends to a caller's slice
// then writes into memory the caller still owns.
func CopyRecSpare(v interface{}) interface{} {
	src := reflect.ValueOf(v)
	dst := reflect.New(src.Type()).Elem()
	copySpare(src, dst)
	return dst.Interface()
}

func copySpare(src, dst reflect.Value) {
	switch src.Kind() {
	case reflect.Ptr:
		if src.IsNil() {
			return
		}
		p := reflect.New(src.Type().Elem())
		copySpare(src.Elem(), p.Elem())
		dst.Set(p)
	case reflect.Slice:
		if src.IsNil() {
			return
		}
		s := reflect.MakeSlice(src.Type(), src.Len(), src.Len()+8)
		for i := 0; i < src.Len(); i++ {
			copySpare(src.Index(i), s.Index(i))
		}
		dst.Set(s)
	case reflect.Struct:
		for i := 0; i < src.NumField(); i++ {
			if src.Type().Field(i).PkgPath != "" {
				continue
			}
			copySpare(src.Field(i), dst.Field(i))
		}
	default:
		dst.Set(src)
	}
}

// SetOpVal replaces the decoded record of an add op (used by harness phases
// that share record values between instances).
func (o *Op) SetVal(v interface{}) { o.val = v }

// WithString returns a copy of struct value rec whose string field name is s.
func WithString(rec interface{}, name, s string) interface{} {
	v := reflect.New(reflect.TypeOf(rec)).Elem()
	v.Set(reflect.ValueOf(rec))
	v.FieldByName(name).SetString(s)
	return v.Interface()
}

// ConvertRecs re-expresses records as values of struct type t: fields are
// matched by name at every level (the two types declare the same fields in a
// different order). It panics when a field has no counterpart.
func ConvertRecs(recs []interface{}, t reflect.Type) []interface{} {
	out := make([]interface{}, len(recs))
	for i, r := range recs {
		v := reflect.New(t).Elem()
		convertVal(reflect.ValueOf(r), v)
		out[i] = v.Interface()
	}
	return out
}

func convertVal(src, dst reflect.Value) {
	switch dst.Kind() {
	case reflect.Struct:
		for i := 0; i < dst.NumField(); i++ {
			f := src.FieldByName(dst.Type().Field(i).Name)
			if !f.IsValid() {
				panic("ConvertRecs: no field " + dst.Type().Field(i).Name)
			}
			convertVal(f, dst.Field(i))
		}
	case reflect.Ptr:
		if src.IsNil() {
			return
		}
		dst.Set(reflect.New(dst.Type().Elem()))
		convertVal(src.Elem(), dst.Elem())
	case reflect.Slice:
		if src.IsNil() {
			return
		}
		dst.Set(reflect.MakeSlice(dst.Type(), src.Len(), src.Len()))
		for i := 0; i < src.Len(); i++ {
			convertVal(src.Index(i), dst.Index(i))
		}
	default:
		dst.Set(src.Convert(dst.Type()))
	}
}

// Package core holds the simulator: PRNG, seams (sink, source, disk), the
// explicit case format, workload generation, execution and shrinking.
package core

// The PRNG is implemented here (not math/rand) so that a seed means the same
// execution on every toolchain. splitmix64 expands seeds; xoshiro256** is the
// stream every run draws from.

func splitmix(x *uint64) uint64 {
	*x += 0x9e3779b97f4a7c15
	z := *x
	z = (z ^ (z >> 30)) * 0xbf58476d1ce4e5b9
	z = (z ^ (z >> 27)) * 0x94d049bb133111eb
	return z ^ (z >> 31)
}

// Mix derives a child seed from a parent seed and labels.
func Mix(seed uint64, labels ...uint64) uint64 {
	x := seed
	out := splitmix(&x)
	for _, l := range labels {
		x ^= l * 0x9e3779b97f4a7c15
		out ^= splitmix(&x)
	}
	return out
}

// HashString is FNV-1a 64.
func HashString(s string) uint64 {
	h := uint64(14695981039346656037)
	for i := 0; i < len(s); i++ {
		h ^= uint64(s[i])
		h *= 1099511628211
	}
	return h
}

// HashBytes is FNV-1a 64.
func HashBytes(b []byte) uint64 {
	h := uint64(14695981039346656037)
	for _, c := range b {
		h ^= uint64(c)
		h *= 1099511628211
	}
	return h
}

// Rng is xoshiro256**.
type Rng struct{ s [4]uint64 }

func NewRng(seed uint64) *Rng {
	r := &Rng{}
	x := seed
	for i := range r.s {
		r.s[i] = splitmix(&x)
	}
	return r
}

func rotl(x uint64, k uint) uint64 { return (x << k) | (x >> (64 - k)) }

func (r *Rng) Uint64() uint64 {
	s := &r.s
	res := rotl(s[1]*5, 7) * 9
	t := s[1] << 17
	s[2] ^= s[0]
	s[3] ^= s[1]
	s[1] ^= s[2]
	s[0] ^= s[3]
	s[2] ^= t
	s[3] = rotl(s[3], 45)
	return res
}

// Intn returns a value in [0,n). n must be > 0.
func (r *Rng) Intn(n int) int {
	if n <= 0 {
		panic("Rng.Intn: n <= 0")
	}
	return int(r.Uint64() % uint64(n))
}

// Range returns a value in [lo,hi].
func (r *Rng) Range(lo, hi int) int {
	if hi < lo {
		panic("Rng.Range: hi < lo")
	}
	return lo + r.Intn(hi-lo+1)
}

// Chance is true with probability num/den.
func (r *Rng) Chance(num, den int) bool { return r.Intn(den) < num }

// Float returns a value in [0,1).
func (r *Rng) Float() float64 { return float64(r.Uint64()>>11) / (1 << 53) }

// Pick returns one of the weights' indices with probability proportional to the weight.
func (r *Rng) Pick(weights ...int) int {
	t := 0
	for _, w := range weights {
		t += w
	}
	x := r.Intn(t)
	for i, w := range weights {
		if x < w {
			return i
		}
		x -= w
	}
	return len(weights) - 1
}

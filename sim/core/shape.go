package core

import (
	"io"
	"reflect"
	"sort"
)

// Writer is the uniform view of a generated ParquetWriter.
type Writer interface {
	Add(rec interface{})
	Write() error
	Close() error
}

// Reader is the uniform view of a generated ParquetReader.
type Reader interface {
	Rows() int64
	Next() bool
	Scan() interface{}
	Error() error
}

// Shape is one struct definition together with the code the tree's parquetgen
// generated for it.
type Shape struct {
	Name      string
	Type      reflect.Type
	NewWriter func(w io.Writer, page int, codec string) (Writer, error)
	NewReader func(r io.ReadSeeker) (Reader, error)
}

var shapes = map[string]*Shape{}

func RegisterShape(s *Shape) { shapes[s.Name] = s }

func GetShape(name string) *Shape {
	s, ok := shapes[name]
	if !ok {
		panic("unknown shape " + name)
	}
	return s
}

// ShapeNames returns the registered shapes in a fixed order.
func ShapeNames() []string {
	var out []string
	for k := range shapes {
		out = append(out, k)
	}
	sort.Strings(out)
	return out
}

var Codecs = []string{"uncompressed", "snappy", "gzip"}

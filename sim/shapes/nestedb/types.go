package nestedb

// T is a twin of shape nested: same column names, nesting and optionality,
// different leaf types.
type Base struct {
	ID   int32  `parquet:"id"`
	Name string `parquet:"name"`
}

type Skill struct {
	Name  string  `parquet:"name"`
	Level *int64  `parquet:"level"`
	Note  *string `parquet:"note"`
}

type Hobby struct {
	Name       string  `parquet:"name"`
	Difficulty *int64  `parquet:"difficulty"`
	Skills     []Skill `parquet:"skills"`
}

type T struct {
	Base
	Tags  []string `parquet:"tags"`
	Hobby *Hobby   `parquet:"hobby"`
	Flag  *bool    `parquet:"flag"`
	Score float32  `parquet:"score"`
}

package person

// T is the repo's own Person test shape (dremel/testcases/person).
type Skill struct {
	Name       string `parquet:"name"`
	Difficulty string `parquet:"difficulty"`
}

type Hobby struct {
	Name       string  `parquet:"name"`
	Difficulty *int32  `parquet:"difficulty"`
	Skills     []Skill `parquet:"skills"`
}

type T struct {
	Name  string `parquet:"name"`
	Hobby *Hobby `parquet:"hobby"`
}

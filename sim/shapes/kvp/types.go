package kvp

// T has the columns of shape kv in another order; it only reads files written
// from kv.T.
type T struct {
	Body string `parquet:"body"`
	ID   int64  `parquet:"id"`
	Rank *int32 `parquet:"rank"`
}

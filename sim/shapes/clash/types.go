package clash

// T has column names that collide under the hash functions a program is most
// likely to reach for: "costarring"/"liquid" (FNV-1 and FNV-1a, 32 bit),
// "plumless"/"buckeroo" (CRC-32), and two names that differ only in case.
// Anything that identifies a column by a hash or a folded form of its name
// instead of by the name books two columns into one.
type T struct {
	Costarring int64   `parquet:"costarring"`
	Liquid     *int64  `parquet:"liquid"`
	Plumless   string  `parquet:"plumless"`
	Buckeroo   *string `parquet:"buckeroo"`
	Total      int32   `parquet:"total"`
	TotalUp    *int32  `parquet:"Total"`
}

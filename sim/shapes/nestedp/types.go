package nestedp

// T has the columns of shape nested with the fields of every struct declared in
// another order; it only reads files written from nested.T.
type Base struct {
	Name string `parquet:"name"`
	ID   int64  `parquet:"id"`
}

type Skill struct {
	Name  string  `parquet:"name"`
	Note  *string `parquet:"note"`
	Level *int32  `parquet:"level"`
}

type Hobby struct {
	Difficulty *int32  `parquet:"difficulty"`
	Name       string  `parquet:"name"`
	Skills     []Skill `parquet:"skills"`
}

type T struct {
	Score float64  `parquet:"score"`
	Hobby *Hobby   `parquet:"hobby"`
	Base
	Flag *bool    `parquet:"flag"`
	Tags []string `parquet:"tags"`
}

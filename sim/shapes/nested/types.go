package nested

// T is a superset of the repo's Person test shape: embedded struct, optional
// group, repeated primitive, repeated group with required and optional leaves.
type Base struct {
	ID   int64  `parquet:"id"`
	Name string `parquet:"name"`
}

type Skill struct {
	Name  string  `parquet:"name"`
	Level *int32  `parquet:"level"`
	Note  *string `parquet:"note"`
}

type Hobby struct {
	Name       string  `parquet:"name"`
	Difficulty *int32  `parquet:"difficulty"`
	Skills     []Skill `parquet:"skills"`
}

type T struct {
	Base
	Tags  []string `parquet:"tags"`
	Hobby *Hobby   `parquet:"hobby"`
	Flag  *bool    `parquet:"flag"`
	Score float64  `parquet:"score"`
}

package bits

// T is as small as a record with bool columns gets: a page of N records holds N
// bits per bool column, so that pages of half a million records and more (the
// only way a bool page body reaches 64 KiB) stay affordable. Used by the
// million-row class only. (A struct of bool columns alone does not compile with
// the tree's parquetgen - unused import - hence the int32.)
type T struct {
	B  bool  `parquet:"b"`
	OB *bool `parquet:"ob"`
	N  int32 `parquet:"n"`
}

package pair

// T has columns with the same leaf names and depth under different parents,
// some of them direct neighbours in schema order (lo.value / hi.value) and
// some not (min.value / max.value, min.note / max.note): anything that
// identifies a column by less than its full path confuses them.
type Bound struct {
	Value int64 `parquet:"value"`
}

type Stat struct {
	Value int64   `parquet:"value"`
	Note  *string `parquet:"note"`
}

type T struct {
	Lo    Bound  `parquet:"lo"`
	Hi    Bound  `parquet:"hi"`
	Min   Stat   `parquet:"min"`
	Max   Stat   `parquet:"max"`
	Value int64  `parquet:"value"`
	Last  *Stat  `parquet:"last"`
	Name  string `parquet:"name"`
}

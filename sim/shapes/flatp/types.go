package flatp

// T has the columns of shape flat (same names, same types) declared in another
// order: a program that reads files written by an older version of its struct.
// It is only ever used to READ files written from flat.T (the reader follows
// the column order of the footer, not the order of the struct).
type T struct {
	OS   *string  `parquet:"os"`
	S    string   `parquet:"s"`
	U64  uint64   `parquet:"u64"`
	OB   *bool    `parquet:"ob"`
	I32  int32    `parquet:"i32"`
	OI64 *int64   `parquet:"oi64"`
	F64  float64  `parquet:"f64"`
	B    bool     `parquet:"b"`
	OU32 *uint32  `parquet:"ou32"`
	I64  int64    `parquet:"i64"`
	OF32 *float32 `parquet:"of32"`
	U32  uint32   `parquet:"u32"`
	OI32 *int32   `parquet:"oi32"`
	F32  float32  `parquet:"f32"`
	OU64 *uint64  `parquet:"ou64"`
	OF64 *float64 `parquet:"of64"`
}

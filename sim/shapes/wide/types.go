package wide

// T is wider than 64 columns (70 leaves: anything that keeps one bit or one
// small fixed array slot per column overflows), and one of its columns has a
// dot in its name, which the parquet tag allows.
type T struct {
	C00    int32    `parquet:"c00"`
	C01    int64    `parquet:"c01"`
	C02    float64  `parquet:"c02"`
	UserID int64    `parquet:"user.id"`
	C03    bool     `parquet:"c03"`
	C04    string   `parquet:"c04"`
	C05    *int32   `parquet:"c05"`
	C06    *int64   `parquet:"c06"`
	C07    *float32 `parquet:"c07"`
	C08    *bool    `parquet:"c08"`
	C09    *string  `parquet:"c09"`
	C10    uint32   `parquet:"c10"`
	C11    *uint64  `parquet:"c11"`
	C12    int32    `parquet:"c12"`
	C13    int64    `parquet:"c13"`
	C14    float64  `parquet:"c14"`
	C15    bool     `parquet:"c15"`
	C16    string   `parquet:"c16"`
	C17    *int32   `parquet:"c17"`
	C18    *int64   `parquet:"c18"`
	C19    *float32 `parquet:"c19"`
	C20    *bool    `parquet:"c20"`
	C21    *string  `parquet:"c21"`
	C22    uint32   `parquet:"c22"`
	C23    *uint64  `parquet:"c23"`
	C24    int32    `parquet:"c24"`
	C25    int64    `parquet:"c25"`
	C26    float64  `parquet:"c26"`
	C27    bool     `parquet:"c27"`
	C28    string   `parquet:"c28"`
	C29    *int32   `parquet:"c29"`
	C30    *int64   `parquet:"c30"`
	C31    *float32 `parquet:"c31"`
	C32    *bool    `parquet:"c32"`
	C33    *string  `parquet:"c33"`
	C34    uint32   `parquet:"c34"`
	C35    *uint64  `parquet:"c35"`
	C36    int32    `parquet:"c36"`
	C37    int64    `parquet:"c37"`
	C38    float64  `parquet:"c38"`
	C39    bool     `parquet:"c39"`
	C40    string   `parquet:"c40"`
	C41    *int32   `parquet:"c41"`
	C42    *int64   `parquet:"c42"`
	C43    *float32 `parquet:"c43"`
	C44    *bool    `parquet:"c44"`
	C45    *string  `parquet:"c45"`
	C46    uint32   `parquet:"c46"`
	C47    *uint64  `parquet:"c47"`
	C48    int32    `parquet:"c48"`
	C49    int64    `parquet:"c49"`
	C50    float64  `parquet:"c50"`
	C51    bool     `parquet:"c51"`
	C52    string   `parquet:"c52"`
	C53    *int32   `parquet:"c53"`
	C54    *int64   `parquet:"c54"`
	C55    *float32 `parquet:"c55"`
	C56    *bool    `parquet:"c56"`
	C57    *string  `parquet:"c57"`
	C58    uint32   `parquet:"c58"`
	C59    *uint64  `parquet:"c59"`
	C60    int32    `parquet:"c60"`
	C61    int64    `parquet:"c61"`
	C62    float64  `parquet:"c62"`
	C63    bool     `parquet:"c63"`
	C64    string   `parquet:"c64"`
	C65    *int32   `parquet:"c65"`
	C66    *int64   `parquet:"c66"`
	C67    *float32 `parquet:"c67"`
	Tags   []string `parquet:"tags"`
}

package rep3

// T has three levels of repetition (as the repo's dremel/testcases/repetition).
type Language struct {
	Codes     []string `parquet:"code"`
	URL       *string  `parquet:"url"`
	Countries []string `parquet:"countries"`
}

type Link struct {
	Backward []Language `parquet:"backward"`
	Forward  []Language `parquet:"forward"`
}

type T struct {
	Links []Link `parquet:"links"`
}

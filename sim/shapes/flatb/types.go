package flatb

// T is a twin of shape flat: the same column names, order and optionality but
// different physical types ("the next version of the same struct"). Two
// packages like these in one process are what a package-level cache keyed too
// coarsely would confuse (C13: prior process history).
type T struct {
	I32  int64    `parquet:"i32"`
	U32  uint64   `parquet:"u32"`
	I64  int32    `parquet:"i64"`
	U64  uint32   `parquet:"u64"`
	F32  float64  `parquet:"f32"`
	F64  float32  `parquet:"f64"`
	B    string   `parquet:"b"`
	S    bool     `parquet:"s"`
	OI32 *int64   `parquet:"oi32"`
	OU32 *uint64  `parquet:"ou32"`
	OI64 *int32   `parquet:"oi64"`
	OU64 *uint32  `parquet:"ou64"`
	OF32 *float64 `parquet:"of32"`
	OF64 *float32 `parquet:"of64"`
	OB   *string  `parquet:"ob"`
	OS   *bool    `parquet:"os"`
}

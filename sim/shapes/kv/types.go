package kv

// T is a small "document" shape whose LAST column is a required string (the
// other shapes end in optional, numeric or repeated columns): what happens at
// the very end of the file depends on the kind of the last column chunk.
type T struct {
	ID   int64  `parquet:"id"`
	Rank *int32 `parquet:"rank"`
	Body string `parquet:"body"`
}

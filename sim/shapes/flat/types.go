package flat

// T covers all eight primitive types, each required and optional: every
// field template and statistics template is on the executed path.
type T struct {
	I32  int32    `parquet:"i32"`
	U32  uint32   `parquet:"u32"`
	I64  int64    `parquet:"i64"`
	U64  uint64   `parquet:"u64"`
	F32  float32  `parquet:"f32"`
	F64  float64  `parquet:"f64"`
	B    bool     `parquet:"b"`
	S    string   `parquet:"s"`
	OI32 *int32   `parquet:"oi32"`
	OU32 *uint32  `parquet:"ou32"`
	OI64 *int64   `parquet:"oi64"`
	OU64 *uint64  `parquet:"ou64"`
	OF32 *float32 `parquet:"of32"`
	OF64 *float64 `parquet:"of64"`
	OB   *bool    `parquet:"ob"`
	OS   *string  `parquet:"os"`
}

package opt4

// T reaches definition level 4 (four nested optionals): the first level count
// that needs three bits. (A repeated group of optional groups, which would
// reach it with repetition, is not used: the tree's parquetgen emits code for
// it that does not compile.)
type L3 struct {
	V *int64  `parquet:"v"`
	S *string `parquet:"s"`
}

type L2 struct {
	C *L3 `parquet:"c"`
}

type L1 struct {
	B *L2 `parquet:"b"`
}

type T struct {
	ID int64 `parquet:"id"`
	A  *L1   `parquet:"a"`
	Z  *bool `parquet:"z"`
}

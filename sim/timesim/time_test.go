// Package timesim is the simulated-clock arm of C08. It is compiled as a test
// binary by the newer toolchain (testing/synctest, Go >= 1.25) and run by
// simcheck after the main search.
//
// The system under test has no clock seam of its own: it never asks for the
// time. This arm is what makes that an observed fact instead of an assumption:
// the whole read runs inside a synctest bubble, where time.Now, timers and
// Sleep use a fake clock that jumps whenever every goroutine of the bubble is
// blocked. The simulated source sleeps before every Read/Seek call - steady
// trickles of milliseconds to a minute per call, one stall of up to three
// hours, seeded jitter - so that one read of a small file covers minutes to
// days of simulated time at no real cost. What the reader returns must be what
// it returns for the same fragmentation without any delay.
package timesim

import (
	"encoding/json"
	"fmt"
	"os"
	"testing"
	"testing/synctest"
	"time"

	"verifsim/core"
	"verifsim/props"

	_ "verifsim/shapes/bits"
	_ "verifsim/shapes/clash"
	_ "verifsim/shapes/doc"
	_ "verifsim/shapes/flat"
	_ "verifsim/shapes/flatb"
	_ "verifsim/shapes/flatp"
	_ "verifsim/shapes/kv"
	_ "verifsim/shapes/kvp"
	_ "verifsim/shapes/nested"
	_ "verifsim/shapes/nestedb"
	_ "verifsim/shapes/nestedp"
	_ "verifsim/shapes/opt4"
	_ "verifsim/shapes/pair"
	_ "verifsim/shapes/person"
	_ "verifsim/shapes/rep3"
	_ "verifsim/shapes/wide"
)

type violation struct {
	Index  int    `json:"index"`
	Sig    string `json:"sig"`
	Detail string `json:"detail"`
}

type result struct {
	Files        int            `json:"files"`
	Bubbles      int            `json:"bubbles"`
	FakeSeconds  float64        `json:"simulated_seconds"`
	Calls        int            `json:"source_calls"`
	DelayedCalls int            `json:"delayed_calls"`
	Plans        map[string]int `json:"plans"`
	Unusable     int            `json:"unusable"`
	Violations   []violation    `json:"violations"`
}

func TestSimulatedClock(t *testing.T) {
	var spec core.TimeSpec
	if err := json.Unmarshal([]byte(os.Getenv("TIMESIM_SPEC")), &spec); err != nil {
		t.Skip("TIMESIM_SPEC not set")
	}
	res := result{Plans: map[string]int{}}
	for i := 0; i < spec.Runs; i++ {
		if spec.Only >= 0 && i != spec.Only {
			continue
		}
		one(t, spec.Seed, i, &res)
	}
	b, _ := json.Marshal(res)
	fmt.Printf("TIMESIM-RESULT %s\n", b)
}

func one(t *testing.T, seed uint64, i int, res *result) {
	r := core.NewRng(core.Mix(seed, core.HashString("timesim"), uint64(i)))
	w, data, want, ok := props.TimeSimFile(r)
	if !ok {
		res.Unusable++
		return
	}
	res.Files++
	kind := []string{"rs", "rsb", "rsx", "rsf"}[r.Intn(4)]
	frag := core.Frag{Policy: []string{"fixed", "random", "small", "full"}[r.Intn(4)], Arg: r.Range(1, 9), Seed: r.Uint64(), EOFWithData: r.Chance(1, 2)}
	plan := []string{"steady", "stall", "jitter"}[r.Intn(3)]
	steady := []time.Duration{time.Millisecond, 100 * time.Millisecond, time.Second, 11 * time.Second, 61 * time.Second}[r.Intn(5)]
	stallAt := r.Range(1, 400)
	stall := time.Duration(r.Range(30, 180)) * time.Minute
	jseed := r.Uint64()
	limit := 2*len(want) + 16
	read := func(delay func(call int) time.Duration) (*core.ReadResult, *core.Source, int) {
		f := frag
		src := core.NewSource(data, &f, nil)
		src.MaxCalls = 400000 + 400*len(data)
		delayed := 0
		if delay != nil {
			src.Yield = func() {
				if d := delay(src.Stats.Calls + 1); d > 0 {
					delayed++
					time.Sleep(d)
				}
			}
		}
		return core.ExecReader(w.ReadShape(), src.AsReadSeeker(kind), limit, nil), src, delayed
	}
	ref, _, _ := read(nil)
	if ref.Reported() || ref.Panic != "" || ref.Hang || ref.Runaway {
		res.Unusable++ // the fragmentation alone already fails: that is the main search's business
		return
	}
	if okr, _ := core.EqualRecs(ref.Recs, want); !okr {
		res.Unusable++
		return
	}
	jr := core.NewRng(jseed)
	delay := func(call int) time.Duration {
		switch plan {
		case "steady":
			return steady
		case "stall":
			if call == stallAt {
				return stall
			}
			return time.Duration(call%11) * time.Millisecond
		}
		return time.Duration(jr.Intn(2000)) * time.Millisecond
	}
	var rr *core.ReadResult
	var src *core.Source
	var delayed int
	var elapsed time.Duration
	synctest.Test(t, func(t *testing.T) {
		start := time.Now()
		rr, src, delayed = read(delay)
		elapsed = time.Since(start)
	})
	res.Bubbles++
	res.Plans[plan]++
	res.FakeSeconds += elapsed.Seconds()
	res.Calls += src.Stats.Calls
	res.DelayedCalls += delayed
	ctx := fmt.Sprintf("[file %s of %d bytes, source=%s, fragmentation %s/%d eof_with_data=%v, delay plan %s (steady %v; stall %v at call %d), %v of simulated time over %d source calls; time-sim seed %d index %d]",
		w.HistoryString(), len(data), kind, frag.Policy, frag.Arg, frag.EOFWithData, plan, steady, stall, stallAt, elapsed, src.Stats.Calls, seed, i)
	switch {
	case rr.Panic != "":
		res.Violations = append(res.Violations, violation{i, "C08/panic-under-delay/" + w.Codec, "reader panicked in " + rr.PanicAPI + ": " + rr.Panic + " " + ctx})
	case rr.Hang || rr.Runaway:
		res.Violations = append(res.Violations, violation{i, "C08/hang-under-delay/" + w.Codec, "reader did not finish " + ctx})
	case rr.Reported():
		res.Violations = append(res.Violations, violation{i, "C08/error-under-delay/" + w.Codec, "the same fragmentation reads fine without delays, with them the reader reports: " + rr.ErrText() + " " + ctx})
	default:
		if okr, why := core.EqualRecs(rr.Recs, ref.Recs); !okr {
			res.Violations = append(res.Violations, violation{i, "C08/records-differ-under-delay/" + w.Codec, why + " " + ctx})
		}
	}
}
